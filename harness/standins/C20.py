"""C20: exhaustive truth table of Grid.__eq__ on real grids (replay of the boolean counter-model and bounded stand-in)"""
import itertools
import random

import numpy as np
import uxarray as ux
import xarray as xr

from .common import FILL, grid_from, mixed_grid, result


def _variants():
    lon, lat, faces = mixed_grid()
    out = []
    for spec_same, lon_same, lat_same, fnc_same in itertools.product([True, False], repeat=4):
        lon2, lat2, f2 = lon.copy(), lat.copy(), faces.copy()
        if not lon_same:
            lon2[3] += 1.0
        if not lat_same:
            lat2[5] -= 1.0
        if not fnc_same:
            f2[2] = [5, 7, 6, FILL]
        g1 = grid_from(lon, lat, faces)
        g2 = grid_from(lon2, lat2, f2)
        if not spec_same:
            g2.source_grid_spec = "Other Format"
        out.append(((spec_same, lon_same, lat_same, fnc_same), g1, g2))
    return out


def _check_all():
    failures = []
    n = 0
    for key, g1, g2 in _variants():
        expect = all(key)
        for a, b, tag in ((g1, g2, "a==b"), (g2, g1, "b==a")):
            n += 1
            got = (a == b)
            if bool(got) != expect:
                failures.append({"what": f"{tag} is {got}, expected {expect}", "violated": "iff(result, same format and lon and lat and connectivity equal)",
                                 "inputs": dict(zip(("spec_same", "lon_same", "lat_same", "conn_same"), key))})
            n += 1
            if bool(a != b) != (not bool(got)):
                failures.append({"what": "!= is not the negation of ==", "inputs": dict(zip(("spec_same", "lon_same", "lat_same", "conn_same"), key))})
    lon, lat, faces = mixed_grid()
    g = grid_from(lon, lat, faces)
    n += 3
    if not (g == g):
        failures.append({"what": "not reflexive"})
    if g == 5 or g == "x":
        failures.append({"what": "equal to a non-Grid"})
    if not (g == g.copy()):
        failures.append({"what": "copy not equal"})
    # number of nodes / faces differs
    g3 = grid_from(lon[:5], lat[:5], faces[:2])
    n += 1
    if g == g3:
        failures.append({"what": "grids with different node/face counts compare equal"})
    return n, failures


def replay_eq(replay):
    n, failures = _check_all()
    if failures:
        return {"verdict": "reproduced", "violated": failures[0].get("violated", failures[0]["what"]), "witness": failures[0],
                "cases": n}
    return {"verdict": "not-reproduced", "cases": n}


# ------------------------------------------------------------------------------------------ access histories
# Equality is a function of (format, node_lon, node_lat, face_node_connectivity) ONLY.  Reading a lazily built derived
# variable (which adds variables / dimensions such as n_edge, two, n_max_node_faces to the internal dataset) on one
# operand, or taking a copy() before vs after such a read, does not change any of the four, so it must change neither
# ==, nor !=, nor the negation relation between them.  The expectation is computed from the INPUT arrays with numpy.

# cheap under the default JIT (no long first-call compilation)
_ACCESSORS_QUICK = ["n_edge", "edge_node_connectivity", "node_face_connectivity", "face_edge_connectivity", "face_areas",
                    "face_lon", "node_x", "edge_lon", "bounds"]
# first call compiles for several seconds (edge_face_connectivity) or adds nothing new dimension-wise: thorough only
_ACCESSORS_THOROUGH = _ACCESSORS_QUICK + ["edge_face_connectivity", "face_face_connectivity", "edge_node_distances",
                                          "n_nodes_per_face", "face_x", "edge_x"]


def _same_data(d1, d2):
    """oracle of the property statement on the INPUT description (format, lon, lat, faces) of two grids"""
    (s1, lon1, lat1, f1), (s2, lon2, lat2, f2) = d1, d2
    return bool(s1 == s2 and lon1.shape == lon2.shape and lat1.shape == lat2.shape and f1.shape == f2.shape
                and np.array_equal(lon1, lon2) and np.array_equal(lat1, lat2) and np.array_equal(f1, f2))


def _build(desc):
    spec, lon, lat, faces = desc
    g = grid_from(lon.copy(), lat.copy(), faces.copy())
    if spec is not None:
        g.source_grid_spec = spec
    return g


def _touch(g, names):
    """first access of derived variables; what they return (or raise) is not C20's business, only that the access
    happened: node_lon / node_lat / face_node_connectivity / format are untouched by it"""
    raised = []
    for nm in names:
        try:
            getattr(g, nm)
        except Exception as e:  # noqa: BLE001 - outside the property's promise; the comparison below is still meaningful
            raised.append(f"{nm}:{type(e).__name__}")
    return raised


class _Hist:
    def __init__(self):
        self.failures, self.cases, self.keys, self.samples = [], 0, set(), []

    def compare(self, a, b, expect, scenario, acc, inputs):
        """== and != in both operand orders against the oracle, plus the negation relation"""
        self.keys.add((inputs.get("mesh"), scenario, acc))
        for x, y, tag in ((a, b, "a,b"), (b, a, "b,a")):
            res = {}
            for op in ("==", "!="):
                self.cases += 1
                try:
                    res[op] = bool((x == y) if op == "==" else (x != y))
                except Exception as e:  # noqa: BLE001
                    self.failures.append({"key": f"exception:{type(e).__name__}:{op}:{scenario}:{acc}",
                                          "what": f"{op} raised {e!r} ({tag})", "violated": "comparison returns a bool",
                                          "inputs": dict(inputs, order=tag), "observed": repr(e), "expected": expect})
            if "==" in res and res["=="] != expect:
                self.failures.append({"key": f"eq_iff_same_format_lon_lat_conn:{scenario}:{acc}",
                                      "what": f"== ({tag}) is {res['==']} for grids whose format/lon/lat/connectivity are "
                                              f"{'identical' if expect else 'different'}",
                                      "violated": "iff(a == b, same format and identical node_lon, node_lat, face_node_connectivity)",
                                      "inputs": dict(inputs, order=tag), "observed": res["=="], "expected": expect})
            if "!=" in res and res["!="] != (not expect):
                self.failures.append({"key": f"ne_iff_data_differs:{scenario}:{acc}",
                                      "what": f"!= ({tag}) is {res['!=']} for grids whose format/lon/lat/connectivity are "
                                              f"{'identical' if expect else 'different'}",
                                      "violated": "iff(a != b, not(same format and identical node_lon, node_lat, face_node_connectivity))",
                                      "inputs": dict(inputs, order=tag), "observed": res["!="], "expected": (not expect)})
            self.cases += 1
            if len(res) == 2 and res["!="] != (not res["=="]):
                self.failures.append({"key": f"ne_is_negation_of_eq:{scenario}:{acc}",
                                      "what": f"({tag}): != gives {res['!=']} while == gives {res['==']}",
                                      "violated": "(a != b) == not (a == b)",
                                      "inputs": dict(inputs, order=tag), "observed": res["!="], "expected": (not res["=="])})


def _perturbations(desc, rng):
    """(tag, description) of grids differing from desc in exactly one aspect named by the property statement"""
    spec, lon, lat, faces = desc
    out = []
    i = rng.randrange(len(lon))
    lon2 = lon.copy()
    lon2[i] += 0.5
    out.append(("one_lon", (spec, lon2, lat, faces)))
    j = rng.randrange(len(lat))
    lat2 = lat.copy()
    lat2[j] += (0.25 if lat[j] < 80 else -0.25)
    out.append(("one_lat", (spec, lon, lat2, faces)))
    f = rng.randrange(faces.shape[0])
    real = [p for p in range(faces.shape[1]) if faces[f, p] != FILL]
    p = rng.choice(real)
    f2 = faces.copy()
    f2[f, p] = (int(faces[f, p]) + 1) % len(lon)
    out.append(("one_conn_entry", (spec, lon, lat, f2)))
    out.append(("n_node", (spec, np.append(lon, 3.0), np.append(lat, 4.0), faces)))
    if faces.shape[0] > 1:
        out.append(("n_face", (spec, lon, lat, faces[:-1].copy())))
    out.append(("format", ("Other Format", lon, lat, faces)))
    return out


def _check_histories(tier, seed):
    from . import meshgen

    rng = random.Random(seed * 1009 + 20)
    accs = list(_ACCESSORS_THOROUGH if tier == "thorough" else _ACCESSORS_QUICK)
    lon, lat, faces = mixed_grid()
    descs = [("mixed_grid", (None, lon, lat, faces))]
    cat = [m for m in meshgen.catalogue(tier, seed) if m["n_face"] <= 60]
    pick = cat if tier == "thorough" else rng.sample(cat, 5)
    for m in pick:
        descs.append((m["name"], (None, np.array(m["lon"], float), np.array(m["lat"], float),
                                  np.array(m["faces"], dtype=np.int64))))
    h = _Hist()
    for name, desc in descs:
        # (thorough: every accessor on every mesh; quick: every accessor on mixed_grid, 3 seeded ones on the others)
        use = accs if (tier == "thorough" or name == "mixed_grid") else rng.sample(accs, 3)
        for acc in use:
            inp = {"mesh": name, "accessed": [acc]}
            # 1. derived variable first accessed on exactly one of two twins
            a, b = _build(desc), _build(desc)
            h.compare(a, b, _same_data(desc, desc), "fresh_twins", "none", {"mesh": name})
            r = _touch(a, [acc])
            h.compare(a, b, True, "accessed_on_one_operand", acc, dict(inp, accessor_raised=r))
            h.compare(a, a, True, "reflexive_after_access", acc, inp)
            # 2. same access on both: same history
            _touch(b, [acc])
            h.compare(a, b, True, "accessed_on_both_operands", acc, inp)
            # 3. copy taken BEFORE the access, compared after it
            c = _build(desc)
            cc = c.copy()
            _touch(c, [acc])
            h.compare(c, cc, True, "copy_taken_before_access", acc, inp)
            # 3b. a copy edited in place (one node longitude written through the copy's own array) differs from the original
            c2 = _build(desc)
            cc2 = c2.copy()
            try:
                cc2.node_lon.values[0] = float(cc2.node_lon.values[0]) + 1.0
                edited = True
            except Exception:  # noqa: BLE001   (read-only arrays: nothing to compare)
                edited = False
            if edited:
                h.compare(c2, cc2, False, "copy_edited_in_place_one_longitude", "none", {"mesh": name})
            # 4. copy taken AFTER the access: against the original, against a fresh twin and against the early copy
            ca = c.copy()
            h.compare(c, ca, True, "copy_taken_after_access", acc, inp)
            h.compare(ca, _build(desc), True, "copy_after_access_vs_fresh_twin", acc, inp)
            h.compare(ca, cc, True, "copy_after_access_vs_copy_before_access", acc, inp)
        # 5. two different (seeded) access sequences on the two operands
        k = min(len(accs), 4)
        sa, sb = rng.sample(accs, k), rng.sample(accs, k)
        a, b = _build(desc), _build(desc)
        _touch(a, sa)
        _touch(b, sb)
        h.compare(a, b, True, "different_access_sequences", "mixed", {"mesh": name, "accessed_a": sa, "accessed_b": sb})
        # 6. a history must not mask a genuine difference either (one lon / lat / connectivity entry / size / format)
        acc = rng.choice(accs)
        for tag, d2 in _perturbations(desc, rng):
            a, b = _build(desc), _build(d2)
            _touch(a, [acc])
            h.compare(a, b, _same_data(desc, d2), f"accessed_on_one_operand_other_differs_in_{tag}", "any",
                      {"mesh": name, "accessed": [acc], "difference": tag})
        if len(h.samples) < 3:
            h.samples.append({"mesh": name, "n_node": int(len(desc[1])), "n_face": int(desc[3].shape[0])})
    # 6b. source-supplied face / edge centres in another longitude convention than the nodes (0..360 with values above 180 while a
    #     node sits exactly on +180): the node coordinates the comparison reads are those given, so the grid equals its twin
    #     built without the centres and a copy taken before the centres were attached
    for name, desc in descs[:3]:
        spec, lon, lat, faces = desc
        lon2 = lon.copy()
        lon2[int(np.argmax(lon2))] = 180.0
        d2 = (spec, lon2, lat, faces)
        nfc = faces.shape[0]
        flon = np.linspace(185.0, 300.0, nfc)
        flat = np.linspace(-20.0, 20.0, nfc)
        inp = {"mesh": name, "node_lon_max": 180.0, "face_lon": "0..360 convention, values above 180"}
        try:
            plain = _build(d2)
            withc = ux.Grid.from_topology(node_lon=lon2.copy(), node_lat=lat.copy(), face_node_connectivity=faces.copy(), fill_value=FILL,
                                          face_lon=flon.copy(), face_lat=flat.copy())
        except Exception:  # noqa: BLE001
            continue
        h.compare(plain, withc, True, "centres_supplied_in_other_convention", "construction", inp)
        _touch(withc, ["edge_lon", "face_lon", "node_lon"])
        h.compare(plain, withc, True, "centres_supplied_in_other_convention", "after_reading_lon_properties", inp)
        early = _build(d2)
        cp = early.copy()
        try:
            early.face_lon = xr.DataArray(flon.copy(), dims=["n_face"])
            early.face_lat = xr.DataArray(flat.copy(), dims=["n_face"])
            _touch(early, ["edge_lon", "edge_lat", "node_lon"])
        except Exception:  # noqa: BLE001
            continue
        h.compare(early, cp, True, "centres_attached_after_copy", "setter_then_edge_lon", inp)
    # 7. grids given by Cartesian corners only (lon / lat derived on first access, whichever coordinate is read first): twins and
    #    copies compare equal whatever was read, in whatever order, on either operand
    quads = [m for m in cat if all(sum(1 for v in row if v != FILL) == 4 for row in m["faces"]) and m["n_face"] <= 30]
    quads = [m for m in quads if np.min(m["lon"]) < -20.0][: (6 if tier == "thorough" else 2)]
    coord_orders = [("node_lat", "node_lon"), ("node_lon", "node_lat"), ("node_lat",), ("node_lon",), ("face_lon",), ("bounds", "node_lat")]
    for m in quads:
        lo, la = np.deg2rad(np.array(m["lon"], float)), np.deg2rad(np.array(m["lat"], float))
        xyz = np.stack([np.cos(la) * np.cos(lo), np.cos(la) * np.sin(lo), np.sin(la)], axis=1)
        verts = np.array([[xyz[v] for v in row[:4]] for row in m["faces"]])
        mk = lambda: ux.Grid.from_face_vertices(verts.copy(), latlon=False)
        for order in coord_orders:
            inp = {"mesh": m["name"], "construction": "Grid.from_face_vertices(xyz, latlon=False)", "accessed": list(order)}
            a, b = mk(), mk()
            _touch(a, order)
            h.compare(a, b, True, "cartesian_only:accessed_on_one_operand", order[0] + "_first", inp)
            c = a.copy()
            h.compare(a, c, True, "cartesian_only:copy_taken_after_access", order[0] + "_first", inp)
            _touch(b, tuple(reversed(order)))
            h.compare(a, b, True, "cartesian_only:different_access_sequences", order[0] + "_first", inp)
            d = mk()
            dc = d.copy()
            _touch(d, order)
            h.compare(d, dc, True, "cartesian_only:copy_taken_before_access", order[0] + "_first", inp)
        # corners within the normalisation tolerance of the unit sphere but not exactly on it; normalize_cartesian_coordinates()
        # called before the first lon / lat access
        for scale in (1.0 + 3e-6, 1.0 - 2e-6):
            mk2 = lambda: ux.Grid.from_face_vertices(verts.copy() * scale, latlon=False)
            inp = {"mesh": m["name"], "construction": f"Grid.from_face_vertices(xyz * {scale!r}, latlon=False)",
                   "history": ["normalize_cartesian_coordinates()", "copy()", "=="]}
            a, b = mk2(), mk2()
            try:
                a.normalize_cartesian_coordinates()
            except Exception:  # noqa: BLE001
                continue
            c = a.copy()
            h.compare(a, c, True, "cartesian_only:copy_after_normalize_call", "near_unit_radius", inp)
            h.compare(a, b, True, "cartesian_only:twin_without_normalize_call", "near_unit_radius", inp)
    # a dataset that one grid already owned (so it carries whatever that grid left on it, attrs included), wrapped again under
    # another / the same format name: the new grid stems from the format it was constructed with
    for mname, mdesc in descs[:3]:
        m = {"name": mname}
        g1 = _build(mdesc)
        for how, mk3 in (("from_dataset(g._ds.copy())", lambda spec: ux.Grid.from_dataset(g1._ds.copy(), source_grid_spec=spec)),
                         ("Grid(g._ds.copy(deep=True))", lambda spec: ux.Grid(g1._ds.copy(deep=True), spec))):
            for spec, expect in (("Some Other Format", False), (g1.source_grid_spec, True)):
                inp = {"mesh": m["name"], "construction": f"{how} with source_grid_spec={spec!r}",
                       "history": ["build g", "wrap g's dataset again", "=="]}
                try:
                    g2 = mk3(spec)
                except Exception:  # noqa: BLE001 - re-wrapping not supported for this mesh: outside the property
                    continue
                h.compare(g1, g2, expect, "rewrapped_dataset:" + how.split("(")[0], "same_format" if expect else "other_format", inp)
    return h, len(descs) + len(quads), accs


def eq_matrix(tier, seed):
    n, failures = _check_all()
    h, n_mesh, accs = _check_histories(tier, seed)
    return result(n + h.cases, n + len(h.keys), failures + h.failures,
                  "exhaustive: 16 combinations of (format, lon, lat, connectivity) equal/different x both "
                  "orders, plus reflexivity, copy, non-Grid, different sizes; access histories: "
                  f"{n_mesh} meshes (mixed_grid + catalogue meshes <= 60 faces) x derived accessors {accs} "
                  "(all on mixed_grid, 3 seeded per other mesh in the quick tier): accessed on one / both operands, copy "
                  "before / after the access, two different access sequences, and one-sided access combined with a single "
                  "lon / lat / connectivity-entry / n_node / n_face / format difference; ==, != in both operand orders and "
                  "their negation relation; numba JIT at the library default", h.samples)
