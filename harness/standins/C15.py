"""C15 bounded stand-in: exported polygons / lines correspond one-to-one with faces.

Oracle (independent of uxarray): the expected ring of face f is [(lon[v], lat[v]) for v in the face's corners, in table order];
with a projection P the expected ring is P.transform_points(PlateCarree(), lon, lat) evaluated by cartopy directly.  A face is an
antimeridian face iff one of its edges (closing edge included) spans >= 180 degrees of longitude.  Data alignment is checked by giving
face f the value 1000+f and reading the face number back from every returned polygon.

Interpretations (documented, to avoid false alarms):
 * uxarray stores shells as float32: vertices are compared with float32 accuracy (5e-5 deg, 8 m for projected metres).
 * a closed ring (first vertex repeated, also several times as padding) is accepted.
 * faces with an edge whose longitude span is within 1e-3 of 180 are not used for the antimeridian classification.
 * projections with central longitude 0 only (Robinson, Mollweide; Orthographic(0,0) in the thorough tier where faces with
   non-finite images may be dropped); PlateCarree() is called once to see that a plain cartopy projection is accepted at all.
 * 'split': piece geometry is judged only for faces that really cross the antimeridian (unwrapped width < 180, |lat| < 85).
"""
import copy
import random

import numpy as np

from . import meshgen as mg
from .common import grid_of, result

import uxarray as ux
import cartopy.crs as ccrs

TOL_DEG = 5e-5
TOL_M = 8.0
PES = ("exclude", "ignore", "split")


# ------------------------------------------------------------------------------------------------ oracle
class Oracle:
    def __init__(self, mesh):
        self.mesh = mesh
        self.nf = mesh["n_face"]
        self.lon = np.asarray(mesh["lon"], float)
        self.lat = np.asarray(mesh["lat"], float)
        self.corners = [mg.face_corners(mesh, f) for f in range(self.nf)]
        self.am, self.ambiguous, self.regular_cross = [], [], []
        for c in self.corners:
            lo = self.lon[c]
            d = np.abs(lo - np.roll(lo, -1))
            self.am.append(bool((d >= 180.0).any()))
            self.ambiguous.append(bool((np.abs(d - 180.0) < 1e-3).any()))
            un = np.where(lo < 0, lo + 360.0, lo)
            self.regular_cross.append(bool((un.max() - un.min()) < 179.0 and (np.abs(self.lat[c]) < 85.0).all()
                                           and (np.abs(np.abs(lo) - 180.0) > 1e-6).all()))
        self.any_ambiguous = any(self.ambiguous)
        self._img = {}

    def image(self, proj):
        """node images under proj (None: lon/lat)"""
        key = _ptag(proj)
        if key not in self._img:
            if proj is None:
                self._img[key] = np.stack([self.lon, self.lat], axis=1)
            else:
                self._img[key] = proj.transform_points(ccrs.PlateCarree(), self.lon, self.lat)[:, :2]
        return self._img[key]

    def ring(self, f, proj):
        return self.image(proj)[self.corners[f]]

    def finite(self, f, proj):
        return bool(np.isfinite(self.ring(f, proj)).all())


def _ptag(proj):
    if proj is None:
        return "lonlat"
    return type(proj).__name__


def _pclass(proj):
    """tag used in failure keys: all central-longitude-0 map projections share the code path"""
    if proj is None:
        return "lonlat"
    if isinstance(proj, ccrs.PlateCarree):
        return "PlateCarree"
    if isinstance(proj, ccrs.Orthographic):
        return "proj_nonfinite"
    return "proj"


# ------------------------------------------------------------------------------------------------ normalisation
def _strip(a):
    a = np.asarray(a, float)
    if a.ndim != 2:
        return np.zeros((0, 2))
    a = a[:, :2]
    while len(a) > 1 and a[-1, 0] == a[0, 0] and a[-1, 1] == a[0, 1]:
        a = a[:-1]
    return a


def pc_rings(pc):
    out = []
    for p in pc.get_paths():
        v = np.asarray(p.vertices, float)
        if p.codes is not None and len(p.codes) and p.codes[-1] == 79:
            v = v[:-1]
        out.append(_strip(v))
    return out


def lc_rings(lc):
    return [_strip(s) for s in lc.get_segments()]


def _shapely_of(geom):
    if hasattr(geom, "to_shapely"):
        return geom.to_shapely()
    return geom


def gdf_rows(gdf):
    """list (one per row) of lists of rings"""
    rows = []
    for geom in list(gdf["geometry"]):
        s = _shapely_of(geom)
        if s.geom_type == "MultiPolygon":
            rows.append([_strip(np.asarray(p.exterior.coords)) for p in s.geoms])
        else:
            rows.append([_strip(np.asarray(s.exterior.coords))])
    return rows


def same_ring(r, e, proj):
    tol = TOL_DEG if proj is None else TOL_M
    r = np.asarray(r, float)
    e = np.asarray(e, float)
    if r.shape != e.shape:
        return False
    return bool(np.all(np.abs(r - e) <= tol + 1e-6 * np.abs(e)))


def _area(r):
    x, y = r[:, 0], r[:, 1]
    return 0.5 * abs(float(np.dot(x, np.roll(y, -1)) - np.dot(y, np.roll(x, -1))))


def cut_lats(orc, f):
    """latitudes at which the edges of face f that cross the antimeridian meet lon = +-180: along the great circle and along
    the straight lon/lat segment (either is accepted)"""
    ring = orc.ring(f, None)
    out = []
    k = len(ring)
    for j in range(k):
        a, b = ring[j], ring[(j + 1) % k]
        if abs(a[0] - b[0]) < 180.0:
            continue
        ax = np.array(mg.xyz_of(a[0], a[1]), float)
        bx = np.array(mg.xyz_of(b[0], b[1]), float)
        n = np.cross(ax, bx)
        if abs(n[2]) > 1e-12:
            out.append(float(np.degrees(np.arctan(n[0] / n[2]))))
        la = a[0] if a[0] >= 0 else a[0] + 360.0
        lb = b[0] if b[0] >= 0 else b[0] + 360.0
        if la != lb:
            t = (180.0 - la) / (lb - la)
            out.append(float(a[1] + t * (b[1] - a[1])))
    return out


def piece_of(orc, f, p, cuts=None):
    """is ring p a plausible 'split' piece of antimeridian face f: its vertices are corners of f or cut points of f's
    crossing edges on lon = +-180"""
    exp = orc.ring(f, None)
    cuts = cut_lats(orc, f) if cuts is None else cuts
    ncorner = 0
    for v in p:
        if (np.abs(exp - v).max(axis=1) <= TOL_DEG).any():
            ncorner += 1
            continue
        if abs(abs(v[0]) - 180.0) <= TOL_DEG and any(abs(v[1] - c) <= 2e-3 for c in cuts):
            continue
        return False
    return ncorner >= 1


def check_pieces(orc, f, pieces):
    """'split' pieces of a regularly crossing antimeridian face f (lon/lat only). returns list of clause names violated"""
    bad = []
    exp = orc.ring(f, None)
    cuts = cut_lats(orc, f)
    if len(pieces) < 2:
        bad.append("split_not_cut")
    for p in pieces:
        if len(p) < 3:
            bad.append("split_piece_degenerate")
            continue
        d = np.abs(p[:, 0] - np.roll(p[:, 0], -1))
        if (d >= 180.0).any():
            bad.append("split_piece_spans_antimeridian")
        if not piece_of(orc, f, p, cuts):
            bad.append("split_foreign_vertex")
        # a piece lies on one side: its corners all have the same sign of longitude
        sg = {np.sign(v[0]) for v in p if abs(abs(v[0]) - 180.0) > TOL_DEG}
        if len(sg) > 1:
            bad.append("split_piece_spans_antimeridian")
    allv = np.concatenate(pieces, axis=0) if pieces else np.zeros((0, 2))
    # together the pieces cover the face: every corner is a vertex of exactly one piece, every cut point is used on both sides
    for c in exp:
        hits = int((np.abs(allv - c).max(axis=1) <= TOL_DEG).sum())
        if hits == 0:
            bad.append("split_corner_missing")
            break
        if hits > 1:
            bad.append("split_corner_repeated")
            break
    if len(pieces) >= 2:
        east = [v[1] for v in allv if abs(v[0] - 180.0) <= TOL_DEG]
        west = [v[1] for v in allv if abs(v[0] + 180.0) <= TOL_DEG]
        if len(east) != len(west) or any(min(abs(e - w) for w in west) > 2e-3 for e in east):
            bad.append("split_cover")
    return sorted(set(bad))


# ------------------------------------------------------------------------------------------------ call sites
class Cfg:
    """one conversion call: site in {gpc, ggdf, glc, dpc, dgdf}"""

    def __init__(self, site, pe, proj, engine=None, cache=True, override=False):
        self.site, self.pe, self.proj, self.engine, self.cache, self.override = site, pe, proj, engine, cache, override

    SITE = {"gpc": "Grid.to_polycollection", "ggdf": "Grid.to_geodataframe", "glc": "Grid.to_linecollection",
            "dpc": "UxDataArray.to_polycollection", "dgdf": "UxDataArray.to_geodataframe"}

    def args(self):
        d = {"periodic_elements": self.pe, "projection": _ptag(self.proj), "cache": self.cache, "override": self.override}
        if self.engine:
            d["engine"] = self.engine
        return d

    def label(self):
        s = f"{self.SITE[self.site]}({self.pe},{_ptag(self.proj)}"
        if self.engine:
            s += "," + self.engine
        if not self.cache:
            s += ",cache=False"
        if self.override:
            s += ",override=True"
        return s + ")"

    def keytail(self):
        s = f"{self.SITE[self.site]}:{self.pe}:{_pclass(self.proj)}"
        if self.engine:
            s += ":" + self.engine
        return s

    def call(self, g, da):
        kw = dict(periodic_elements=self.pe, projection=self.proj, cache=self.cache, override=self.override)
        if self.site == "gpc":
            return g.to_polycollection(return_indices=True, **kw)
        if self.site == "ggdf":
            return g.to_geodataframe(engine=self.engine, **kw)
        if self.site == "glc":
            return g.to_linecollection(**kw)
        if self.site == "dpc":
            return da.to_polycollection(**kw)
        if self.site == "dgdf":
            return da.to_geodataframe(engine=self.engine, **kw)
        raise KeyError(self.site)

    def norm(self, out):
        """-> dict(rows=[list of rings per returned item], values=array or None, idx=list or None)"""
        if self.site == "gpc":
            pc, idx = out
            return {"rows": [[r] for r in pc_rings(pc)], "values": None, "idx": [int(i) for i in list(idx)]}
        if self.site == "glc":
            return {"rows": [[r] for r in lc_rings(out)], "values": None, "idx": None}
        if self.site == "dpc":
            arr = out.get_array()
            return {"rows": [[r] for r in pc_rings(out)], "values": None if arr is None else np.asarray(arr, float),
                    "idx": None}
        if self.site == "ggdf":
            extra = [c for c in out.columns if c != "geometry"]
            return {"rows": gdf_rows(out), "values": None, "idx": None, "extra_columns": extra}
        if self.site == "dgdf":
            return {"rows": gdf_rows(out), "values": np.asarray(out["v"].values, float), "idx": None}


def same_norm(a, b):
    if len(a["rows"]) != len(b["rows"]):
        return False
    for ra, rb in zip(a["rows"], b["rows"]):
        if len(ra) != len(rb):
            return False
        for x, y in zip(ra, rb):
            if x.shape != y.shape or not np.array_equal(x, y, equal_nan=True):
                return False
    for k in ("values",):
        if (a.get(k) is None) != (b.get(k) is None):
            return False
        if a.get(k) is not None and not np.array_equal(a[k], b[k], equal_nan=True):
            return False
    if a.get("idx") != b.get("idx"):
        return False
    if a.get("extra_columns", []) != b.get("extra_columns", []):
        return False
    return True


def make(mesh):
    g = grid_of(mesh)
    da = ux.UxDataArray(np.arange(mesh["n_face"], dtype=float) + 1000.0, dims=["n_face"], uxgrid=g, name="v")
    return g, da


# ------------------------------------------------------------------------------------------------ correspondence check
def check_output(orc, cfg, n):
    """compare a normalised output with the oracle; returns list of (clause, detail)"""
    bad = []
    proj, pe = cfg.proj, cfg.pe
    nf = orc.nf
    usable = not orc.any_ambiguous
    # faces whose projected image is not finite may be dropped (or kept): required <= returned faces <= allowed
    allowed = [f for f in range(nf) if not (pe == "exclude" and orc.am[f])]
    required = [f for f in allowed if orc.finite(f, proj)]
    all_finite = len(required) == len(allowed)
    rows = n["rows"]
    values = n["values"]
    # -------- which face does each returned item claim to be
    if values is not None:
        if np.ndim(values) != 1:
            bad.append(("data_length", f"data attached to the polygons has shape {tuple(np.shape(values))} for {len(rows)} polygons"))
            return bad
        if len(values) != len(rows):
            bad.append(("data_length", f"{len(values)} data values for {len(rows)} polygons"))
            return bad
        if not np.all(np.isfinite(values)) or np.any(values != np.round(values)):
            bad.append(("data_alignment", "data values are not the face values given"))
            return bad
        claim = [int(v) - 1000 for v in values]
        if any(c < 0 or c >= nf for c in claim):
            bad.append(("data_alignment", "data values are not the face values given"))
            return bad
    elif cfg.site == "gpc" and pe in ("exclude", "split") and all_finite:
        claim = n["idx"]
        if len(claim) != len(rows):
            bad.append(("index_length", f"{len(claim)} indices for {len(rows)} polygons"))
            claim = None
        elif any(c < 0 or c >= nf for c in claim):
            bad.append(("index_range", "returned face indices out of range"))
            claim = None
    else:
        claim = None
    split_rows = (pe == "split")
    one_per_face = not (split_rows and cfg.site in ("gpc", "dpc", "glc"))   # gdf 'split': one (multi)polygon row per face
    if claim is None:
        if one_per_face:
            if not usable and pe == "exclude":
                return bad
            if len(rows) == len(allowed):
                claim = allowed
            elif len(rows) == len(required):
                claim = required
            else:
                bad.append(("count", f"{len(rows)} items for {len(allowed)} expected faces (of {nf})"))
                return bad
        else:
            # split pieces without an index (line collection): match greedily in face order
            claim = []
            f = 0
            for r in rows:
                while f < nf and not _row_could_be(orc, f, r[0]):
                    f += 1
                if f >= nf:
                    if all(orc.regular_cross[k] and not orc.ambiguous[k] for k in range(nf) if orc.am[k]):
                        bad.append(("vertices", "a line is not (a piece of) any remaining face, in face order"))
                    return bad        # with polar / seam faces the greedy matching is not reliable: not judged
                claim.append(f)
            missing = [f for f in range(nf) if f not in set(claim)]
            if missing and all(orc.regular_cross[k] and not orc.ambiguous[k] for k in range(nf) if orc.am[k]):
                bad.append(("faces_missing", f"faces {missing} have no line"))
    else:
        # set of faces present
        present = sorted(set(claim))
        if usable or pe != "exclude":
            extra = [f for f in present if f not in allowed]
            missing = [f for f in required if f not in present]
            if extra or missing:
                if pe == "exclude" and any(orc.am[f] for f in extra):
                    bad.append(("antimeridian_not_dropped", f"antimeridian faces {extra} returned"))
                elif missing:
                    bad.append(("faces_missing", f"faces {missing} have no polygon"))
                else:
                    bad.append(("faces_extra", f"faces {extra} unexpected"))
        if one_per_face and len(claim) != len(set(claim)):
            bad.append(("duplicates", "a face is returned more than once"))
        if list(claim) != sorted(claim):
            bad.append(("order", "polygons are not in face order"))
    # -------- geometry of each item
    by_face = {}
    for r, f in zip(rows, claim):
        by_face.setdefault(f, []).extend(r)
    for f, rings in by_face.items():
        exp = orc.ring(f, proj)
        if not np.isfinite(exp).all():
            continue
        if pe == "split" and orc.am[f]:
            if proj is None and orc.regular_cross[f] and not orc.ambiguous[f]:
                for c in check_pieces(orc, f, rings):
                    bad.append((c, f"face with corners {np.round(exp, 3).tolist()} -> pieces "
                                   f"{[np.round(p, 3).tolist() for p in rings]}"))
            continue
        # every ring attached to f must be f's ring (duplicates are reported above)
        for r in rings:
            if not same_ring(r, exp, proj):
                clause = "vertices"
                if proj is not None and same_ring(r, orc.ring(f, None), None):
                    clause = "vertices_not_projected"
                elif values is not None or cfg.site == "gpc":
                    # does it match another face? then it is an alignment problem
                    for f2 in range(nf):
                        if f2 != f and same_ring(r, orc.ring(f2, proj), proj):
                            clause = "data_alignment" if values is not None else "index_alignment"
                            break
                bad.append((clause, f"polygon attached to face {f}: {np.round(r, 4).tolist()} expected "
                                    f"{np.round(exp, 4).tolist()}"))
                break
    return bad


def _row_could_be(orc, f, r):
    if same_ring(r, orc.ring(f, None), None):
        return True
    if not orc.am[f]:
        return False
    if orc.regular_cross[f] and not orc.ambiguous[f]:
        return piece_of(orc, f, r)
    # faces around a pole / touching the antimeridian: the antimeridian package inserts pole and seam vertices; accept any ring
    # whose other vertices are corners of f
    exp = orc.ring(f, None)
    n = 0
    for v in r:
        if abs(abs(v[0]) - 180.0) <= TOL_DEG or abs(abs(v[1]) - 90.0) <= TOL_DEG:
            continue
        if not (np.abs(exp - v).max(axis=1) <= TOL_DEG).any():
            return False
        n += 1
    return n >= 1


# ------------------------------------------------------------------------------------------------ driver
def _configs(projs, thorough):
    out = []
    for pe in PES:
        for proj in projs:
            if pe == "split" and proj is not None:
                continue    # documented as unsupported (ValueError); outside the quantifier
            out.append(Cfg("gpc", pe, proj))
            out.append(Cfg("glc", pe, proj))
            out.append(Cfg("dpc", pe, proj))
            out.append(Cfg("dpc", pe, proj, cache=False))
            for eng in ("spatialpandas", "geopandas"):
                out.append(Cfg("ggdf", pe, proj, eng))
                out.append(Cfg("dgdf", pe, proj, eng))
            out.append(Cfg("dgdf", pe, proj, "geopandas", cache=False))
    return out


def _split_available():
    try:
        import antimeridian
        import shapely
        p = shapely.Polygon([(170, 0), (-170, 0), (-170, 10), (170, 10)])
        antimeridian.fix_polygon(p)
        return True
    except Exception:
        return False


def geometry_export(tier, seed):
    thorough = tier == "thorough"
    rng = random.Random(seed * 1009 + 17)
    failures, cases, distinct, samples = [], 0, set(), []
    split_ok = _split_available()
    robinson, mollweide, ortho = ccrs.Robinson(), ccrs.Mollweide(), ccrs.Orthographic(0, 0)

    def fail(key, what, violated, inputs, observed=None, expected=None):
        failures.append({"key": key, "what": what, "violated": violated, "inputs": inputs, "observed": observed,
                         "expected": expected})

    meshes = [m for m in mg.catalogue(tier, seed) if m["n_face"] <= (60 if thorough else 26)]
    if not thorough:
        # keep the quick tier small: all catalogue meshes that have an antimeridian face + a seeded sample of the others
        am_m = [m for m in meshes if any(Oracle(m).am)]
        rest = [m for m in meshes if not any(Oracle(m).am)]
        rng.shuffle(rest)
        meshes = am_m[:8] + rest[:8]

    # ---------------------------------------------------------------- 1. correspondence on fresh grids
    findings = []     # (clause, cfg, mesh name, detail)
    pc_exc = {}
    for mesh in meshes:
        orc = Oracle(mesh)
        projs = [None, robinson]
        if thorough:
            projs.append(mollweide)
            if mesh["closed"] or np.abs(orc.lon).max() < 60:
                projs.append(ortho)
        # Grid.antimeridian_face_indices
        cases += 1
        distinct.add((mesh["name"], "am"))
        if not orc.any_ambiguous:
            got = sorted(int(i) for i in np.asarray(grid_of(mesh).antimeridian_face_indices).ravel())
            exp = [f for f in range(orc.nf) if orc.am[f]]
            if got != exp:
                fail("antimeridian_set:Grid.antimeridian_face_indices",
                     "antimeridian_face_indices is not the set of faces with an edge spanning >= 180 deg of longitude",
                     "antimeridian faces == faces with an edge spanning >= 180 deg", {"mesh": mesh["name"]}, got, exp)
        for cfg in _configs(projs, thorough):
            if cfg.pe == "split" and not split_ok:
                continue
            g, da = make(mesh)
            cases += 1
            distinct.add((mesh["name"], cfg.label()))
            try:
                n = cfg.norm(cfg.call(g, da))
            except Exception as e:
                findings.append((f"exception:{type(e).__name__}", cfg, mesh["name"], f"raises {type(e).__name__}: {str(e)[:120]}"))
                continue
            for clause, detail in check_output(orc, cfg, n):
                findings.append((clause, cfg, mesh["name"], detail))
            if len(samples) < 3:
                samples.append({"mesh": mesh["name"], "call": cfg.label()})
        # PlateCarree() once per mesh: a plain cartopy projection must be accepted
        for site in ("gpc", "glc", "ggdf"):
            cfg = Cfg(site, "exclude", ccrs.PlateCarree(), "spatialpandas" if site == "ggdf" else None)
            g, da = make(mesh)
            cases += 1
            try:
                n = cfg.norm(cfg.call(g, da))
            except Exception as e:
                pc_exc.setdefault(type(e).__name__, {"sites": set(), "mesh": mesh["name"], "msg": str(e)[:120]})["sites"].add(cfg.SITE[site])
                continue
            for clause, detail in check_output(orc, cfg, n):
                findings.append((clause, cfg, mesh["name"], detail))
    # faces with an edge spanning EXACTLY 180 degrees of longitude (values exactly representable, so no rounding is involved): they
    # count as crossing ("at least 180 degrees")
    exact = mg.mk("edge_spanning_exactly_180", [-180.0, -90.0, 0.0, -90.0, 90.0, 0.0, 10.0, 20.0, 20.0, 10.0],
                  [60.0, 70.0, 60.0, 10.0, 10.0, 40.0, 0.0, 0.0, 10.0, 10.0], [[0, 1, 2], [3, 4, 5], [6, 7, 8, 9]])
    cases += 3
    distinct.add(("edge_spanning_exactly_180", "am"))
    try:
        got = sorted(int(i) for i in np.asarray(grid_of(exact).antimeridian_face_indices).ravel())
        if got != [0, 1]:
            fail("antimeridian_set:Grid.antimeridian_face_indices:edge_spanning_exactly_180",
                 "a face with an edge spanning exactly 180 degrees of longitude is not among antimeridian_face_indices",
                 "antimeridian faces == faces with an edge spanning >= 180 deg", {"mesh": exact["name"], "lon": exact["lon"].tolist()}, got, [0, 1])
        g, da = make(exact)
        npc = len(g.to_polycollection(periodic_elements="exclude").get_paths())
        ngdf = len(g.to_geodataframe(periodic_elements="exclude", engine="geopandas"))
        if npc != 1 or ngdf != 1:
            fail("count:exclude:edge_spanning_exactly_180", "'exclude' keeps a face with an edge spanning exactly 180 degrees of longitude",
                 "faces crossing the antimeridian are dropped ('exclude')", {"mesh": exact["name"]}, [npc, ngdf], [1, 1])
    except Exception as e:  # noqa: BLE001
        fail(f"exception:{type(e).__name__}:edge_spanning_exactly_180", f"conversion of a grid with an edge spanning exactly 180 degrees raises {type(e).__name__}: {e}"[:200],
             "a conversion yields geometry", {"mesh": exact["name"]})
    for exc, d in sorted(pc_exc.items()):
        fail(f"exception:{exc}:projection=PlateCarree",
             f"{', '.join(sorted(d['sites']))} with projection=cartopy.crs.PlateCarree() raise {exc}: {d['msg']}",
             "a conversion yields geometry for a cartopy projection",
             {"mesh": d["mesh"], "call": "periodic_elements='exclude', projection=ccrs.PlateCarree()"}, exc, "a result")
    for f in _collapse(findings):
        failures.append(f)

    # ---------------------------------------------------------------- 2. histories: result depends only on the arguments
    hist_meshes = [m for m in meshes if any(Oracle(m).am)][: (6 if thorough else 2)]
    hist_meshes += [m for m in meshes if not any(Oracle(m).am)][: (3 if thorough else 1)]
    for mesh in hist_meshes:
        orc = Oracle(mesh)
        projs = [None, robinson] + ([ortho] if (thorough and (mesh["closed"] or np.abs(orc.lon).max() < 60)) else [])
        cfgs = []
        for pe in PES:
            if pe == "split" and not split_ok:
                continue
            for proj in projs:
                if pe == "split" and proj is not None:
                    continue
                for site in ("gpc", "glc", "dpc"):
                    cfgs.append(Cfg(site, pe, proj))
                    if thorough or site == "glc":
                        cfgs.append(Cfg(site, pe, proj, cache=False))
                for eng in ("spatialpandas", "geopandas"):
                    for site in ("ggdf", "dgdf"):
                        cfgs.append(Cfg(site, pe, proj, eng))
                        if thorough:
                            cfgs.append(Cfg(site, pe, proj, eng, cache=False))
        fresh = {}
        for c in cfgs:
            g, da = make(mesh)
            try:
                fresh[c.label()] = c.norm(c.call(g, da))
            except Exception as e:
                fresh[c.label()] = ("EXC", type(e).__name__)
        # related pairs: same family of cache (poly: gpc/dpc, gdf: ggdf/dgdf, line: glc)
        fam = {"gpc": "poly", "dpc": "poly", "ggdf": "gdf", "dgdf": "gdf", "glc": "line"}
        pairs = [(b, a) for b in cfgs for a in cfgs if fam[a.site] == fam[b.site] and a.label() != b.label()]
        if not thorough:
            rng.shuffle(pairs)
            pairs = pairs[:260]
        for b, a in pairs:
            cases += 1
            distinct.add((mesh["name"], b.label(), a.label()))
            g, da = make(mesh)
            try:
                b.call(g, da)
            except Exception:
                pass
            try:
                got = a.norm(a.call(g, da))
            except Exception as e:
                got = ("EXC", type(e).__name__)
            ref = fresh[a.label()]
            same = (got == ref) if (isinstance(got, tuple) or isinstance(ref, tuple)) else same_norm(got, ref)
            if not same:
                diff = _differs(a, b)
                fail(f"history:{a.SITE[a.site]}:after:{b.SITE[b.site]}:differs_in={diff}",
                     f"{a.label()} after {b.label()} differs from the same call on a fresh grid",
                     "the result of a conversion depends only on its arguments, never on earlier conversions",
                     {"mesh": mesh["name"], "sequence": [b.label(), a.label()]}, _brief(got), _brief(ref))
        # A, B, A (and override=True must rebuild to the same thing)
        for a in cfgs[:: (1 if thorough else 3)]:
            cases += 1
            g, da = make(mesh)
            try:
                a.call(g, da)
                a2 = Cfg(a.site, a.pe, a.proj, a.engine, cache=a.cache, override=True)
                got = a.norm(a2.call(g, da))
            except Exception as e:
                got = ("EXC", type(e).__name__)
            ref = fresh[a.label()]
            same = (got == ref) if (isinstance(got, tuple) or isinstance(ref, tuple)) else same_norm(got, ref)
            if not same:
                fail(f"history:{a.SITE[a.site]}:override_rebuild_differs", f"{a.label()} then override=True differs from fresh",
                     "the result of a conversion depends only on its arguments", {"mesh": mesh["name"], "call": a.label()},
                     _brief(got), _brief(ref))

        # ------------------------------------------------------------ 3. returned objects are not altered by later conversions
        later = [c for c in cfgs if c.cache][:: (1 if thorough else 2)]
        for a in [c for c in cfgs if c.cache and c.site in ("gpc", "ggdf", "glc")]:
            for b in later:
                if fam[a.site] != fam[b.site]:
                    continue
                cases += 1
                g, da = make(mesh)
                try:
                    obj = a.call(g, da)
                    before = a.norm(obj)
                    before = copy.deepcopy(before)
                except Exception:
                    continue
                try:
                    b.call(g, da)
                except Exception:
                    pass
                after = a.norm(obj)
                if not same_norm(before, after):
                    what = "extra data column" if after.get("extra_columns") != before.get("extra_columns") else "geometry"
                    fail(f"returned_object_altered:{a.SITE[a.site]}:by:{b.SITE[b.site]}",
                         f"the object returned by {a.label()} changed ({what}) after the later call {b.label()}",
                         "returned objects are not altered by later conversions",
                         {"mesh": mesh["name"], "sequence": [a.label(), b.label()]}, _brief(after), _brief(before))

    bound = (f"{len(meshes)} meshes (<= {60 if thorough else 26} faces; quads, mixed 3..8-gons, closed spheres, random patches, "
             f"antimeridian / polar placements), periodic_elements x {{None, Robinson" + (", Mollweide, Orthographic(0,0)" if thorough else "")
             + "} x 5 call sites x 2 engines on fresh grids; PlateCarree() acceptance; "
             f"history pairs (B then A vs fresh A) on {len(hist_meshes)} meshes, override rebuild, aliasing of returned objects; "
             f"'split' {'checked' if split_ok else 'SKIPPED (antimeridian package unusable)'}; NUMBA_DISABLE_JIT as set by the driver")
    return result(cases, len(distinct), failures, bound, samples)


_VIOLATED = {
    "vertices": "each polygon's vertices are its face's corner (lon, lat) or their projected images, in order",
    "vertices_not_projected": "with a projection the vertices are the images of the corners under that projection",
    "count": "polygons correspond one-to-one with (the kept) faces",
    "duplicates": "polygons correspond one-to-one with faces",
    "faces_missing": "'ignore' passes all faces / 'exclude' drops exactly the antimeridian faces",
    "faces_extra": "'exclude' drops exactly the antimeridian faces",
    "antimeridian_not_dropped": "'exclude' drops the faces with an edge spanning >= 180 deg of longitude",
    "data_length": "each data value stays attached to the polygon(s) of its own face",
    "data_alignment": "each data value stays attached to the polygon(s) of its own face",
    "index_alignment": "returned face indices map every polygon to its own face",
    "split_piece_spans_antimeridian": "'split' yields pieces none of which spans the antimeridian",
    "split_cover": "'split' pieces together cover the same face",
    "split_corner_missing": "'split' pieces together cover the same face",
    "split_foreign_vertex": "'split' pieces together cover the same face",
    "split_not_cut": "'split' cuts antimeridian faces into pieces",
}


_PRIORITY = ["count", "duplicates", "faces_missing", "faces_extra", "antimeridian_not_dropped", "index_length",
             "index_range", "order", "vertices_not_projected", "data_length", "data_alignment", "index_alignment",
             "split_not_cut", "split_piece_spans_antimeridian", "split_piece_degenerate", "split_corner_missing",
             "split_corner_repeated", "split_foreign_vertex", "split_cover", "vertices", "exception"]


_DATA = ("data_length", "data_alignment")


def _prio(clause):
    c = clause.split(":")[0]
    return _PRIORITY.index(c) if c in _PRIORITY else len(_PRIORITY)


def _collapse(findings):
    """one failure per call site x option x projection class (x engine): the most basic violated clause; the engines are merged
    when both fail alike; a UxDataArray failure that merely repeats the Grid failure of the same call is dropped"""
    best = {}
    for clause, cfg, mesh, detail in findings:
        kind = "data" if clause.split(":")[0] in _DATA else "geom"
        k = (cfg.site, cfg.pe, _pclass(cfg.proj), cfg.engine, kind)
        if k not in best or _prio(clause) < _prio(best[k][0]):
            best[k] = (clause, cfg, mesh, detail)
    # one entry per call site x option x projection class: the most basic clause over meshes and engines
    merged = {}
    for (site, pe, pc, eng, kind), v in sorted(best.items(), key=lambda kv: str(kv[0])):
        k = (site, pe, pc, None, kind)
        if k not in merged or _prio(v[0]) < _prio(merged[k][0]):
            merged[k] = v
    for k in [k for k in merged if k[2] == "proj_nonfinite"]:
        t = merged.get((k[0], k[1], "proj", None, k[4]))
        if t is not None and t[0].split(":")[0] == merged[k][0].split(":")[0]:
            del merged[k]      # same clause already reported for the ordinary projections
    out = []
    twin = {"dpc": "gpc", "dgdf": "ggdf"}
    for (site, pe, pc, eng, kind), (clause, cfg, mesh, detail) in sorted(merged.items(), key=lambda kv: str(kv[0])):
        if site in twin and kind == "geom":
            if any(k[0] == twin[site] and k[1] == pe and k[2] == pc and k[4] == "geom" and k[3] in (eng, None)
                   for k in merged):
                continue
        key = f"{clause}:{Cfg.SITE[site]}:{pe}:{pc}" + (f":{eng}" if eng else "")
        out.append({"key": key, "what": f"{cfg.label()}: {detail}"[:420], "violated": _VIOLATED.get(clause.split(":")[0], clause),
                    "inputs": {"mesh": mesh, "call": cfg.label(), "args": cfg.args()}, "observed": detail[:300],
                    "expected": _VIOLATED.get(clause.split(":")[0], None)})
    return out


def _differs(a, b):
    d = []
    if a.site != b.site:
        d.append("caller")
    if a.pe != b.pe:
        d.append("periodic_elements")
    if _ptag(a.proj) != _ptag(b.proj):
        d.append("projection")
    if a.engine != b.engine:
        d.append("engine")
    if a.cache != b.cache and not d:
        d.append("cache")
    return "+".join(d) or "nothing"


def _brief(n):
    if isinstance(n, tuple):
        return list(n)
    out = {"n_items": len(n["rows"])}
    if n["rows"]:
        out["first"] = [np.round(r, 3).tolist() for r in n["rows"][0]][:2]
    if n.get("values") is not None:
        out["values"] = np.asarray(n["values"]).tolist()[:12]
    if n.get("idx") is not None:
        out["idx"] = n["idx"][:12]
    if n.get("extra_columns"):
        out["extra_columns"] = n["extra_columns"]
    return out


# ------------------------------------------------------------------------------------------------ GeoDataFrame frames / flags
def gdf_frames(tier, seed):
    """History independence of the GeoDataFrame conversions over the arguments the plotting accessor varies: projections with a
    different central longitude (the antimeridian of the requested frame moves), and project=True/False.  For every ordered pair
    (B, A) of calls: A after B on one grid must equal A on a fresh grid (rows, data values of UxDataArray.to_geodataframe)."""
    thorough = tier == "thorough"
    rng = random.Random(seed * 7919 + 5)
    failures, cases, distinct, samples = [], 0, set(), []
    projs = [None, ccrs.Robinson(), ccrs.Robinson(central_longitude=180)]
    if thorough:
        projs += [ccrs.Mollweide(central_longitude=90)]
    meshes = [m for m in mg.catalogue(tier, seed) if m["n_face"] <= (60 if thorough else 26)]
    am_m = [m for m in meshes if any(Oracle(m).am)]
    zero_m = [m for m in meshes if m["closed"]]
    pick = (zero_m[:2] + am_m[:2]) if not thorough else (zero_m[:5] + am_m[:6])
    seen = set()
    pick = [m for m in pick if not (m["name"] in seen or seen.add(m["name"]))]

    def call(g, da, c):
        site, pe, proj, eng, project = c
        kw = dict(periodic_elements=pe, projection=proj, engine=eng)
        if project is not None:
            kw["project"] = project
        out = (g if site == "ggdf" else da).to_geodataframe(**kw)
        rows = gdf_rows(out)
        vals = np.asarray(out["v"].values, float) if site == "dgdf" else None
        return {"rows": rows, "values": vals, "idx": None, "extra_columns": [c_ for c_ in out.columns if c_ not in ("geometry", "v")]}

    def ptag(proj):
        if proj is None:
            return "lonlat"
        return f"{type(proj).__name__}(lon_0={proj.proj4_params.get('lon_0', 0)})"

    def label(c):
        site, pe, proj, eng, project = c
        return f"{Cfg.SITE[site]}({pe},{ptag(proj)},{eng}" + ("" if project is None else f",project={project}") + ")"

    for mesh in pick:
        cfgs = []
        for pe in ("exclude", "ignore"):
            for proj in projs:
                for project in ((None,) if proj is None else (None, False)):
                    for site in ("ggdf", "dgdf"):
                        cfgs.append((site, pe, proj, "geopandas", project))
        fresh = {}
        for c in cfgs:
            g, da = make(mesh)
            try:
                fresh[label(c)] = call(g, da, c)
            except Exception as e:  # noqa: BLE001
                fresh[label(c)] = ("EXC", type(e).__name__)
        # data alignment in a frame whose antimeridian is moved (project=False: the rows stay in degrees, relative to the central
        # longitude): every row carries the value of the face whose corners are its vertices
        orc = Oracle(mesh)
        for c in cfgs:
            site, pe, proj, eng, project = c
            if site != "dgdf" or project is not False or proj is None or isinstance(fresh[label(c)], tuple):
                continue
            lon0 = float(proj.proj4_params.get("lon_0", 0))
            n = fresh[label(c)]
            cases += 1
            if n["values"] is None or len(n["values"]) != len(n["rows"]):
                continue        # row / value counts are the main stand-in's business
            for r_i, (rings, val) in enumerate(zip(n["rows"], n["values"])):
                f = int(round(float(val) - 1000.0))
                if not (0 <= f < orc.nf) or len(rings) != 1:
                    continue
                ring = np.asarray(rings[0], float)
                if len(ring) > 1 and np.allclose(ring[0], ring[-1]):
                    ring = ring[:-1]
                want = np.stack([orc.lon[orc.corners[f]] - lon0, orc.lat[orc.corners[f]]], axis=1)
                if len(ring) != len(want):
                    ok = False
                else:
                    # same vertex multiset, longitudes compared modulo 360 (poles: longitude free)
                    def key(p):
                        return (round(float(p[1]), 3), None if abs(abs(p[1]) - 90.0) < 1e-6 else round(float(p[0]) % 360.0, 3) % 360.0)
                    ok = sorted(map(str, map(key, ring))) == sorted(map(str, map(key, want)))
                if not ok:
                    failures.append({"key": f"data_alignment:UxDataArray.to_geodataframe:{pe}:central_longitude={lon0:g}:project=False",
                                     "what": f"{label(c)} on a fresh grid: row {r_i} carries the value of face {f} but its vertices are not that face's corners",
                                     "violated": "each data value stays attached to the polygon(s) of its own face under every option",
                                     "inputs": {"mesh": mesh["name"], "call": label(c)}, "observed": np.round(ring, 3).tolist()[:8],
                                     "expected": np.round(want, 3).tolist()[:8]})
                    break
        pairs = [(b, a) for b in cfgs for a in cfgs if label(a) != label(b)]
        if not thorough:
            rng.shuffle(pairs)
            pairs = pairs[:120]
        for b, a in pairs:
            cases += 1
            distinct.add((mesh["name"], label(b), label(a)))
            g, da = make(mesh)
            try:
                call(g, da, b)
            except Exception:  # noqa: BLE001
                pass
            try:
                got = call(g, da, a)
            except Exception as e:  # noqa: BLE001
                got = ("EXC", type(e).__name__)
            ref = fresh[label(a)]
            same = (got == ref) if (isinstance(got, tuple) or isinstance(ref, tuple)) else same_norm(got, ref)
            if not same:
                d = []
                if ptag(a[2]) != ptag(b[2]):
                    d.append("projection")
                if a[4] != b[4]:
                    d.append("project")
                if a[1] != b[1]:
                    d.append("periodic_elements")
                if a[0] != b[0]:
                    d.append("caller")
                fail_key = f"history:{Cfg.SITE[a[0]]}:after:{Cfg.SITE[b[0]]}:differs_in={'+'.join(d) or 'nothing'}"
                failures.append({"key": fail_key, "what": f"{label(a)} after {label(b)} differs from the same call on a fresh grid",
                                 "violated": "the result of a conversion depends only on its arguments, never on earlier conversions",
                                 "inputs": {"mesh": mesh["name"], "sequence": [label(b), label(a)]},
                                 "observed": _brief(got), "expected": _brief(ref)})
            if len(samples) < 3:
                samples.append({"mesh": mesh["name"], "sequence": [label(b), label(a)]})
    bound = (f"{len(pick)} meshes (closed spheres and antimeridian patches, <= {60 if thorough else 26} faces) x ordered pairs of "
             f"{{Grid, UxDataArray}}.to_geodataframe calls over periodic_elements in (exclude, ignore) x projections "
             f"{[ptag(p) for p in projs]} x project in (default, False), engine geopandas; "
             f"{'all' if thorough else '120 sampled'} pairs per mesh")
    return result(cases, len(distinct), failures, bound, samples)



# ------------------------------------------------------------------------------------------------ cache on / off sequences
def cache_sequences(tier, seed):
    """Sequences A, B, A of conversions on one grid where B is any other conversion of the same family - cached or made with
    cache=False, with another projection (one of them, Orthographic, maps faces of a closed mesh to non-finite images, so the NaN
    side table differs) - and the second A must equal A on a fresh grid: geometry, returned indices and the data values attached
    to the polygons."""
    thorough = tier == "thorough"
    rng = random.Random(seed * 6151 + 3)
    failures, cases, distinct, samples = [], 0, set(), []
    split_ok = _split_available()
    projs = [None, ccrs.Robinson(), ccrs.Orthographic(0, 0)]
    meshes = [m for m in mg.catalogue(tier, seed) if m["n_face"] <= (60 if thorough else 26)]
    closed = [m for m in meshes if m["closed"]]
    am_m = [m for m in meshes if any(Oracle(m).am) and not m["closed"]]
    pick = (closed[:1] + am_m[:1]) if not thorough else (closed[:4] + am_m[:4])
    seen_keys = set()
    for mesh in pick:
        cfgs = []
        for pe in PES:
            if pe == "split" and not split_ok:
                continue
            for proj in projs:
                if pe == "split" and proj is not None:
                    continue
                for cache in (True, False):
                    cfgs.append(Cfg("gpc", pe, proj, cache=cache))
                    cfgs.append(Cfg("dpc", pe, proj, cache=cache))
                    cfgs.append(Cfg("ggdf", pe, proj, "geopandas", cache=cache))
                    cfgs.append(Cfg("dgdf", pe, proj, "geopandas", cache=cache))
        fam = {"gpc": "poly", "dpc": "poly", "ggdf": "gdf", "dgdf": "gdf"}
        fresh = {}
        for c in cfgs:
            g, da = make(mesh)
            try:
                fresh[c.label()] = c.norm(c.call(g, da))
            except Exception as e:  # noqa: BLE001
                fresh[c.label()] = ("EXC", type(e).__name__)
        seqs = [(a, b) for a in cfgs for b in cfgs if fam[a.site] == fam[b.site] and a.label() != b.label()
                and (not b.cache or not a.cache or a.site != b.site or _differs(a, b) != "nothing")]
        # the informative ones first: the middle call is uncached or differs in projection
        rng.shuffle(seqs)
        seqs.sort(key=lambda ab: (ab[1].cache, _ptag(ab[0].proj) == _ptag(ab[1].proj)))
        if not thorough:
            seqs = seqs[:220]
        for a, b in seqs:
            cases += 1
            distinct.add((mesh["name"], a.label(), b.label()))
            g, da = make(mesh)
            try:
                a.call(g, da)
            except Exception:  # noqa: BLE001
                pass
            try:
                b.call(g, da)
            except Exception:  # noqa: BLE001
                pass
            try:
                got = a.norm(a.call(g, da))
            except Exception as e:  # noqa: BLE001
                got = ("EXC", type(e).__name__)
            ref = fresh[a.label()]
            same = (got == ref) if (isinstance(got, tuple) or isinstance(ref, tuple)) else same_norm(got, ref)
            if not same:
                key = (f"sequence:{a.SITE[a.site]}:{'cached' if a.cache else 'cache=False'}:repeated_after:{b.SITE[b.site]}:"
                       f"{'cached' if b.cache else 'cache=False'}:differs_in={_differs(a, b)}")
                if key in seen_keys:
                    continue
                seen_keys.add(key)
                failures.append({"key": key,
                                 "what": f"{a.label()}, then {b.label()}, then {a.label()} again: the last result differs from the same "
                                         f"call on a fresh grid",
                                 "violated": "the result of a conversion depends only on its arguments, never on earlier conversions",
                                 "inputs": {"mesh": mesh["name"], "sequence": [a.label(), b.label(), a.label()]},
                                 "observed": _brief(got), "expected": _brief(ref)})
            if len(samples) < 3:
                samples.append({"mesh": mesh["name"], "sequence": [a.label(), b.label(), a.label()]})
    bound = (f"{len(pick)} meshes (closed sphere + antimeridian patch, <= {60 if thorough else 26} faces) x sequences A, B, A over "
             f"{{Grid, UxDataArray}}.{{to_polycollection, to_geodataframe(geopandas)}} x periodic_elements x projections "
             f"(None, Robinson, Orthographic(0,0)) x cache in (True, False); {'all' if thorough else '220'} sequences per mesh, "
             f"uncached / other-projection middle calls first")
    return result(cases, len(distinct), failures, bound, samples)
