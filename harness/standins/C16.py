"""C16 bounded stand-in: edge distances, differences and gradients follow the edge's own neighbours.

edge_quantities(tier, seed): on the meshgen catalogue (patches with n_face < n_node, closed meshes with n_face > n_node,
holes, isolated faces, mixed 3..8-gons, renumbered variants):
  edge_node_distances[e] == great-circle distance of e's two nodes
  edge_face_distances[e] == great-circle distance of the centres of the two faces sharing e, 0 on boundary edges
  difference / gradient of face- and node-centred data of rank 1..3, normalisation, leading dimensions, dims, grid, no
  in-place damage of the cached tables, source-supplied distances kept.

Oracle: node unit vectors from the mesh definition, face centres = normalised mean of corner unit vectors (C04), faces of
an edge = faces of the mesh definition that contain the edge's node pair; angle = atan2(|a x b|, a . b).
The grid's edge numbering (edge_node_connectivity) is only used as the index map edge id -> node pair.
"""
import random

import numpy as np
import xarray as xr

from .common import FILL, grid_of, result, ux
from . import meshgen as mg

ATOL = 1e-9


def _angle(a, b):
    return np.arctan2(np.linalg.norm(np.cross(a, b), axis=-1), np.sum(a * b, axis=-1))


def _oracle(mesh, edge_nodes):
    """expected tables in the GRID's edge numbering; returns None if the grid's edges are not the mesh's edges (C02 matter)"""
    x, y, z = mg.xyz_of(mesh["lon"], mesh["lat"])
    U = np.stack([x, y, z], axis=1)
    ctr = []
    pair_faces = {}
    for f in range(mesh["n_face"]):
        c = mg.face_corners(mesh, f)
        m = U[c].mean(axis=0)
        ctr.append(m / np.linalg.norm(m))
        for p in mg.edge_pairs_of_face(mesh["faces"][f]):
            pair_faces.setdefault(p, []).append(f)
    ctr = np.array(ctr)
    n_edge = edge_nodes.shape[0]
    if n_edge != len(pair_faces):
        return None
    en_dist = np.zeros(n_edge)
    ef_dist = np.zeros(n_edge)
    faces_of = []
    usable = np.ones(n_edge, bool)
    for e in range(n_edge):
        a, b = int(edge_nodes[e, 0]), int(edge_nodes[e, 1])
        p = (min(a, b), max(a, b))
        if p not in pair_faces:
            return None
        fs = pair_faces[p]
        en_dist[e] = _angle(U[a], U[b])
        if len(fs) == 2:
            ef_dist[e] = _angle(ctr[fs[0]], ctr[fs[1]])
        elif len(fs) > 2:
            usable[e] = False            # non-manifold edge: outside "the two faces sharing e"
        faces_of.append(fs)
    return {"U": U, "ctr": ctr, "en": en_dist, "ef": ef_dist, "faces_of": faces_of, "usable": usable}


class _Run:
    def __init__(self):
        self.failures = []
        self.cases = 0

    def fail(self, key, what, violated, inputs, observed=None, expected=None):
        self.failures.append({"key": key, "what": what, "violated": violated, "inputs": inputs,
                              "observed": observed, "expected": expected})


def _size_class(mesh):
    return "n_face>n_node" if mesh["n_face"] > mesh["n_node"] else ("n_face<n_node" if mesh["n_face"] < mesh["n_node"] else "n_face==n_node")


def _first_bad(got, exp, mask=None, atol=ATOL):
    got, exp = np.asarray(got, float), np.asarray(exp, float)
    bad = ~np.isclose(got, exp, rtol=1e-9, atol=atol)
    if mask is not None:
        bad &= mask
    if not bad.any():
        return None
    i = np.argwhere(bad)[0]
    return tuple(int(k) for k in i)


def _data(rng, rank, n, kind):
    lead = {1: (), 2: (3,), 3: (2, 3)}[rank]
    shape = lead + (n,)
    if kind == "const":
        return np.full(shape, 2.5)
    if kind == "int":
        return rng.integers(-5, 6, size=shape).astype(float)
    return rng.normal(size=shape) * 10.0


def _dims(rank, last):
    return {1: [last], 2: ["time", last], 3: ["time", "lev", last]}[rank]


def _check_mesh(run, mesh, rng, tier):
    sc = _size_class(mesh)
    inputs = {"mesh": mesh["name"], "n_node": mesh["n_node"], "n_face": mesh["n_face"]}
    g = grid_of(mesh)
    try:
        en = np.array(g.edge_node_connectivity.values)
        efc = np.array(g.edge_face_connectivity.values)
    except Exception as e:  # noqa: BLE001  (C02/C03 territory; nothing to check here)
        return
    orc = _oracle(mesh, en)
    if orc is None:
        return
    n_edge = en.shape[0]
    us = orc["usable"]
    boundary = np.array([len(fs) == 1 for fs in orc["faces_of"]])
    interior = np.array([len(fs) == 2 for fs in orc["faces_of"]])
    has_boundary = "with_boundary" if boundary.any() else "closed"

    # ---------------------------------------------------------------- edge_node_distances
    run.cases += 1
    en_first = None
    try:
        got = np.array(g.edge_node_distances.values, float)
        en_first = got.copy()
        i = None if got.shape == (n_edge,) else (0,)
        i = i or _first_bad(got, orc["en"])
        if i is not None:
            run.fail("edge_node_distances:value", "edge_node_distances differs from the great-circle distance of the edge's nodes",
                     "edge_node_distances[e] is the great-circle distance between edge e's two nodes", inputs,
                     observed={"edge": i[0], "value": float(got[i]) if got.shape == (n_edge,) else list(got.shape)},
                     expected=float(orc["en"][i[0]]))
        if g.edge_node_distances.dims != ("n_edge",):
            run.fail("edge_node_distances:dims", "edge_node_distances is not dimensioned (n_edge,)", "edge-dimensioned result",
                     inputs, observed=list(g.edge_node_distances.dims))
    except Exception as e:  # noqa: BLE001
        run.fail(f"raises:{type(e).__name__}:edge_node_distances:{sc}", f"edge_node_distances raises {type(e).__name__}: {e}",
                 "edge_node_distances[e] is the great-circle distance between edge e's two nodes", inputs)

    # ---------------------------------------------------------------- edge_face_distances
    run.cases += 1
    ef_ok = False
    ef_first = None
    try:
        ef_first = np.array(g.edge_face_distances.values, float, copy=True)
        i = None if ef_first.shape == (n_edge,) else (0,)
        if i is None:
            i = _first_bad(ef_first, orc["ef"], mask=us & interior)
            if i is not None:
                fs = orc["faces_of"][i[0]]
                run.fail(f"edge_face_distances:value:{sc}",
                         "edge_face_distances differs from the great-circle distance between the centres of the two faces sharing the edge",
                         "edge_face_distances[e] is the great-circle distance between the centres of the two faces sharing e",
                         inputs, observed={"edge": i[0], "faces": fs, "value": float(ef_first[i])}, expected=float(orc["ef"][i[0]]))
            j = _first_bad(ef_first, orc["ef"], mask=us & boundary)
            if j is not None:
                run.fail(f"edge_face_distances:boundary_not_zero:{sc}", "edge_face_distances is not zero on a boundary edge",
                         "edge_face_distances[e] is zero for boundary edges", inputs,
                         observed={"edge": j[0], "value": float(ef_first[j])}, expected=0.0)
            ef_ok = i is None and j is None
        else:
            run.fail("edge_face_distances:shape", "edge_face_distances does not have shape (n_edge,)", "edge-dimensioned", inputs,
                     observed=list(ef_first.shape))
    except Exception as e:  # noqa: BLE001
        run.fail(f"raises:{type(e).__name__}:edge_face_distances:{sc}", f"edge_face_distances raises {type(e).__name__}: {e}",
                 "edge_face_distances[e] is the great-circle distance between the centres of the two faces sharing e", inputs)

    # ---------------------------------------------------------------- a subset taken after the parent's tables were evaluated
    if ef_ok and mesh["n_face"] >= 3:
        nf = mesh["n_face"]
        keep = sorted(rng.sample(range(nf), max(1, nf // 2)))
        run.cases += 1
        sinputs = dict(inputs, subset=f"Grid.isel(n_face={keep[:8]}{'...' if len(keep) > 8 else ''}) after the parent's distances were read")
        try:
            sub = g.isel(n_face=keep)
            sen = np.array(sub.edge_node_connectivity.values)
            sfaces = np.array(sub.face_node_connectivity.values)
            smesh = {"name": mesh["name"] + ":subset", "lon": np.array(sub.node_lon.values, float), "lat": np.array(sub.node_lat.values, float),
                     "faces": sfaces, "n_face": int(sfaces.shape[0]), "n_node": int(sub.n_node), "closed": False}
            sorc = _oracle(smesh, sen)
            if sorc is not None:
                sb = np.array([len(fs) == 1 for fs in sorc["faces_of"]])
                si = np.array([len(fs) == 2 for fs in sorc["faces_of"]])
                sef = np.array(sub.edge_face_distances.values, float)
                sed = np.array(sub.edge_node_distances.values, float)
                if sef.shape != (sen.shape[0],) or sed.shape != (sen.shape[0],):
                    run.fail("subset:edge_distances:shape", "edge distances of a subset grid do not have shape (n_edge,) of the subset",
                             "edge-dimensioned", sinputs, observed=[list(sef.shape), list(sed.shape)], expected=[int(sen.shape[0])])
                else:
                    j = _first_bad(sef, sorc["ef"], mask=sorc["usable"] & sb)
                    if j is not None:
                        run.fail("subset:edge_face_distances:boundary_not_zero",
                                 "edge_face_distances of a subset grid is not zero on an edge that is a boundary edge of the subset",
                                 "edge_face_distances[e] is zero for boundary edges", sinputs,
                                 observed={"edge": j[0], "value": float(sef[j])}, expected=0.0)
                    i = _first_bad(sef, sorc["ef"], mask=sorc["usable"] & si)
                    if i is not None:
                        run.fail("subset:edge_face_distances:value",
                                 "edge_face_distances of a subset grid differs from the distance between the centres of the two subset faces sharing the edge",
                                 "edge_face_distances[e] is the great-circle distance between the centres of the two faces sharing e", sinputs,
                                 observed={"edge": i[0], "value": float(sef[i])}, expected=float(sorc["ef"][i[0]]))
                    i = _first_bad(sed, sorc["en"])
                    if i is not None:
                        run.fail("subset:edge_node_distances:value", "edge_node_distances of a subset grid differs from the distance of the edge's nodes",
                                 "edge_node_distances[e] is the great-circle distance between edge e's two nodes", sinputs,
                                 observed={"edge": i[0], "value": float(sed[i])}, expected=float(sorc["en"][i[0]]))
        except Exception as e:  # noqa: BLE001
            run.fail(f"raises:{type(e).__name__}:subset_edge_distances", f"edge distances of Grid.isel(n_face=...) raise {type(e).__name__}: {e}",
                     "edge_face_distances[e] is the great-circle distance between the centres of the two faces sharing e", sinputs)

    # ---------------------------------------------------------------- the same mesh given by Cartesian corners off the unit sphere
    sizes = {int((np.asarray(row) != FILL).sum()) for row in mesh["faces"]}
    if len(sizes) == 1 and mesh["n_face"] <= 40:
        k = sizes.pop()
        for radius in (0.5, 6371.229):
            run.cases += 1
            cinputs = dict(inputs, construction=f"Grid.from_face_vertices(xyz * {radius}, latlon=False); distances read before any normalisation")
            try:
                verts = np.array([[orc["U"][v] * radius for v in row[:k]] for row in mesh["faces"]])
                gc = ux.Grid.from_face_vertices(verts, latlon=False)
                P = np.stack([gc.node_x.values, gc.node_y.values, gc.node_z.values], axis=1).astype(float)
                P = P / np.linalg.norm(P, axis=1, keepdims=True)
                cmesh = {"name": mesh["name"] + ":xyz", "lon": np.rad2deg(np.arctan2(P[:, 1], P[:, 0])), "lat": np.rad2deg(np.arcsin(np.clip(P[:, 2], -1, 1))),
                         "faces": np.array(gc.face_node_connectivity.values), "n_face": int(gc.n_face), "n_node": int(gc.n_node), "closed": False}
                cen = np.array(gc.edge_node_connectivity.values)
                corc = _oracle(cmesh, cen)
                if corc is None:
                    continue
                ced = np.array(gc.edge_node_distances.values, float)
                cef = np.array(gc.edge_face_distances.values, float)
            except Exception as e:  # noqa: BLE001
                run.fail(f"raises:{type(e).__name__}:cartesian_source_distances", f"edge distances of a Cartesian-only grid raise {type(e).__name__}: {e}",
                         "edge_node_distances[e] is the great-circle distance between edge e's two nodes", cinputs)
                continue
            i = _first_bad(ced, corc["en"], atol=1e-7)
            if i is not None:
                run.fail("edge_node_distances:value:cartesian_source_off_unit_sphere",
                         "edge_node_distances of a grid given by Cartesian corners off the unit sphere differs from the great-circle distance",
                         "edge_node_distances[e] is the great-circle distance between edge e's two nodes", cinputs,
                         observed={"edge": i[0], "value": float(ced[i])}, expected=float(corc["en"][i[0]]))
            ci = np.array([len(fs) == 2 for fs in corc["faces_of"]])
            i = _first_bad(cef, corc["ef"], mask=corc["usable"] & ci, atol=1e-7)
            if i is not None:
                run.fail("edge_face_distances:value:cartesian_source_off_unit_sphere",
                         "edge_face_distances of a grid given by Cartesian corners off the unit sphere differs from the centre-to-centre distance",
                         "edge_face_distances[e] is the great-circle distance between the centres of the two faces sharing e", cinputs,
                         observed={"edge": i[0], "value": float(cef[i])}, expected=float(corc["ef"][i[0]]))

    # ---------------------------------------------------------------- difference (face / node centred)
    nrng = np.random.default_rng(rng.randrange(2 ** 31))
    exp_f0 = np.array([fs[0] for fs in orc["faces_of"]])
    exp_f1 = np.array([fs[1] if len(fs) > 1 else fs[0] for fs in orc["faces_of"]])
    kinds = [(r, k) for r in (1, 2, 3) for k in ("random", "const", "int") if not (tier == "quick" and k == "int" and r != 2)]
    for rank, kind in kinds:
        rk = f"rank{rank}"
        d = _data(nrng, rank, mesh["n_face"], kind)
        uxda = ux.UxDataArray(d.copy(), dims=_dims(rank, "n_face"), uxgrid=g, name="v")
        exp_diff = np.abs(d[..., exp_f0] - d[..., exp_f1])
        exp_diff[..., ~interior] = 0.0
        case_in = dict(inputs, data=f"{kind}, face-centred, rank {rank}, shape {list(d.shape)}")
        run.cases += 1
        try:
            r = uxda.difference(destination="edge")
            _check_result(run, r, g, exp_diff, us, _dims(rank, "n_edge"), "difference:face_centred", rk, case_in,
                          "the difference of a face-centred variable on edge e is the absolute difference of the values on its two faces, zero on boundary edges")
            if not np.array_equal(uxda.values, d):
                run.fail("difference:face_centred:input_modified", "difference() modified its input data", "no in-place damage", case_in)
        except Exception as e:  # noqa: BLE001
            run.fail(f"raises:{type(e).__name__}:difference:face_centred:{rk}", f"difference raises {type(e).__name__}: {e}",
                     "difference returns an edge-dimensioned result", case_in)
        d = _data(nrng, rank, mesh["n_node"], kind)
        uxda = ux.UxDataArray(d.copy(), dims=_dims(rank, "n_node"), uxgrid=g, name="v")
        exp_nd = np.abs(d[..., en[:, 0]] - d[..., en[:, 1]])
        case_in = dict(inputs, data=f"{kind}, node-centred, rank {rank}, shape {list(d.shape)}")
        run.cases += 1
        try:
            r = uxda.difference(destination="edge")
            _check_result(run, r, g, exp_nd, np.ones(n_edge, bool), _dims(rank, "n_edge"), "difference:node_centred", rk, case_in,
                          "the difference of a node-centred variable on edge e is the absolute difference of the values on its two nodes")
        except Exception as e:  # noqa: BLE001
            run.fail(f"raises:{type(e).__name__}:difference:node_centred:{rk}", f"difference raises {type(e).__name__}: {e}",
                     "difference returns an edge-dimensioned result", case_in)

    # ---------------------------------------------------------------- gradient
    # (a) on the grid with DERIVED distances: values against the true centre distances (only meaningful if the table is right;
    #     otherwise the quotient is a consequence of the table failure already reported) + constant fields + wrapper posts
    # (b) on a grid whose distances are SUPPLIED through the setter: values, normalisation, leading dimensions
    g2 = grid_of(mesh)
    sup_ef = np.linspace(0.5, 1.5, n_edge)
    sup_en = np.linspace(2.0, 3.0, n_edge)
    en2 = np.array(g2.edge_node_connectivity.values)      # fixes the edge numbering before per-edge tables are supplied
    same_numbering = en2.shape == en.shape and np.array_equal(en2, en)
    g2.edge_face_distances = xr.DataArray(sup_ef.copy(), dims=["n_edge"])
    g2.edge_node_distances = xr.DataArray(sup_en.copy(), dims=["n_edge"])
    run.cases += 1
    try:
        if not (np.array_equal(g2.edge_face_distances.values, sup_ef) and np.array_equal(g2.edge_node_distances.values, sup_en)):
            run.fail("supplied_distances:not_kept", "distances supplied through the setter are not what is reported",
                     "unless the source supplies these", inputs)
    except Exception as e:  # noqa: BLE001
        run.fail(f"raises:{type(e).__name__}:supplied_distances", f"reading source-supplied distances raises {type(e).__name__}: {e}",
                 "unless the source supplies these", inputs)
    variants = [("derived_distances", g, orc["ef"], ef_ok)]
    if same_numbering:
        variants.append(("supplied_distances", g2, sup_ef, True))
    clause = ("the gradient is the difference divided by the centre-to-centre distance, zero on boundary edges and for constant "
              "fields; with normalisation it has unit Euclidean norm along the edge axis, independently for every leading index")
    for label, gg, dist, dist_ok in variants:
        safe = np.where(interior, dist, 1.0)
        for rank, kind in kinds:
            sub = "rank1" if rank == 1 else "rank>=2"
            d = _data(nrng, rank, mesh["n_face"], kind)
            exp_diff = np.abs(d[..., exp_f0] - d[..., exp_f1])
            exp_diff[..., ~interior] = 0.0
            case_in = dict(inputs, distances=label, data=f"{kind}, face-centred, rank {rank}, shape {list(d.shape)}")
            for normalize in (False, True):
                run.cases += 1
                tag = "gradient_normalized" if normalize else "gradient"
                exp_grad = exp_diff / safe
                exp_grad[..., ~interior] = 0.0
                uxda = ux.UxDataArray(d.copy(), dims=_dims(rank, "n_face"), uxgrid=gg, name="v")
                try:
                    r = uxda.gradient(normalize=normalize)
                except Exception as e:  # noqa: BLE001
                    run.fail(f"raises:{type(e).__name__}:{tag}:{label}:{sc}", f"gradient raises {type(e).__name__}: {e}", clause, case_in)
                    continue
                if kind == "const":
                    if normalize:
                        _check_result(run, r, gg, None, us, _dims(rank, "n_edge"), tag, sub, case_in, clause)
                        continue                   # all zero: normalisation is not constrained
                    vals = np.asarray(r.values, float)
                    _check_result(run, r, gg, None, us, _dims(rank, "n_edge"), tag, sub, case_in, clause)
                    if vals.shape == exp_grad.shape and not np.all(vals[..., us] == 0.0):
                        run.fail(f"gradient:constant_field_not_zero:{label}", "the gradient of a constant field is not zero everywhere",
                                 "the gradient is zero for constant fields", case_in,
                                 observed=vals[..., us].ravel()[np.flatnonzero(vals[..., us].ravel() != 0.0)[:3]].tolist(), expected=0.0)
                    continue
                if not dist_ok or not us.all():
                    _check_result(run, r, gg, None, us, _dims(rank, "n_edge"), tag, sub, case_in, clause)
                    continue
                skip = None
                if normalize:
                    nrm = np.sqrt(np.sum(exp_grad ** 2, axis=-1, keepdims=True))
                    allzero = nrm == 0
                    exp_grad = exp_grad / np.where(allzero, 1.0, nrm)
                    skip = np.broadcast_to(allzero, exp_grad.shape)     # "when not all zero"
                    if skip.all():
                        continue
                _check_result(run, r, gg, exp_grad, us, _dims(rank, "n_edge"), tag, sub, case_in, clause, skip=skip)
        # leading dimensions independent: stacked == separate
        if interior.any() and dist_ok:
            a = _data(nrng, 1, mesh["n_face"], "random")
            b = 3.0 * _data(nrng, 1, mesh["n_face"], "random") + 1.0
            for normalize in (False, True):
                run.cases += 1
                try:
                    ra = ux.UxDataArray(a, dims=["n_face"], uxgrid=gg, name="v").gradient(normalize=normalize).values
                    rb = ux.UxDataArray(b, dims=["n_face"], uxgrid=gg, name="v").gradient(normalize=normalize).values
                    rs = ux.UxDataArray(np.stack([a, b]), dims=["time", "n_face"], uxgrid=gg, name="v").gradient(normalize=normalize).values
                except Exception:  # noqa: BLE001  (already reported above)
                    continue
                if not (np.all(np.isfinite(ra)) and np.all(np.isfinite(rb))):
                    continue
                if not (np.allclose(rs[0], ra, rtol=1e-9, atol=1e-12) and np.allclose(rs[1], rb, rtol=1e-9, atol=1e-12)):
                    run.fail(f"gradient{'_normalized' if normalize else ''}:leading_dims_not_independent",
                             f"gradient(normalize={normalize}) of two stacked fields differs from the two gradients computed separately",
                             "all act independently along leading dimensions",
                             dict(inputs, distances=label, data="two random face-centred fields stacked along 'time'"),
                             observed={"stacked[0][:4]": rs[0][:4].tolist(), "separate[:4]": ra[:4].tolist()})

    # ---------------------------------------------------------------- tables unchanged by gradient()/difference()
    run.cases += 1
    try:
        if ef_first is not None and not np.array_equal(np.array(g.edge_face_distances.values, float), ef_first, equal_nan=True):
            run.fail("edge_face_distances:changed_by_gradient_or_difference", "edge_face_distances differs after gradient()/difference() calls",
                     "a later read of the distance tables is unchanged (no in-place damage)", inputs)
        if en_first is not None and not np.array_equal(np.array(g.edge_node_distances.values, float), en_first, equal_nan=True):
            run.fail("edge_node_distances:changed_by_gradient_or_difference", "edge_node_distances differs after gradient()/difference() calls",
                     "a later read of the distance tables is unchanged (no in-place damage)", inputs)
        if not (np.array_equal(g2.edge_face_distances.values, sup_ef) and np.array_equal(g2.edge_node_distances.values, sup_en)):
            run.fail("supplied_distances:changed_by_gradient", "source-supplied distances changed after gradient() calls",
                     "source-supplied distances are kept; no in-place damage", inputs)
    except Exception as e:  # noqa: BLE001
        run.fail(f"raises:{type(e).__name__}:reread_distances", f"re-reading the distance tables raises {type(e).__name__}: {e}",
                 "a later read of the distance tables is unchanged", inputs)


def _check_result(run, r, g, expected, usable, dims, name, sub, inputs, clause, skip=None):
    """wrapper postconditions + values; expected None = only the wrapper postconditions"""
    if tuple(r.dims) != tuple(dims):
        run.fail(f"{name}:dims", f"result dims {list(r.dims)} instead of {dims}", "results are edge-dimensioned with the leading dimensions kept",
                 inputs, observed=list(r.dims), expected=dims)
        return
    if getattr(r, "uxgrid", None) is not g:
        run.fail(f"{name}:uxgrid", "result is not attached to the same grid", "return edge-dimensioned results on the same grid", inputs)
    if expected is None:
        return
    vals = np.asarray(r.values, float)
    if vals.shape != expected.shape:
        run.fail(f"{name}:shape", f"result shape {list(vals.shape)} instead of {list(expected.shape)}", clause, inputs)
        return
    mask = np.broadcast_to(usable, expected.shape).copy()
    if skip is not None:
        mask &= ~skip
    i = _first_bad(vals, expected, mask=mask)
    if i is not None:
        run.fail(f"{name}:value:{sub}", f"{name.split(':')[0]} value differs from the oracle at index {list(i)}", clause, inputs,
                 observed=float(vals[i]), expected=float(expected[i]))


def edge_quantities(tier, seed):
    rng = random.Random(seed * 7907 + 16)
    meshes = mg.catalogue(tier, seed)
    if tier == "thorough":
        meshes += mg.random_meshes(seed * 17 + 3, 400)
    run = _Run()
    names = set()
    samples = []
    n_gt = n_lt = 0
    for m in meshes:
        names.add(m["name"])
        if m["n_face"] > m["n_node"]:
            n_gt += 1
        elif m["n_face"] < m["n_node"]:
            n_lt += 1
        _check_mesh(run, m, rng, tier)
        if len(samples) < 3:
            samples.append({"mesh": m["name"], "n_node": m["n_node"], "n_face": m["n_face"]})
    bound = (f"{len(meshes)} meshes of the meshgen catalogue ({n_lt} with n_face<n_node, {n_gt} with n_face>n_node; patches with holes, "
             f"isolated faces, 3..8-gons, closed polyhedra, renumbered and random patches at poles/antimeridian); per mesh face- and "
             f"node-centred data of rank 1..3 (random, constant, integer-valued), gradient with and without normalisation, stacked-vs-"
             f"separate, cached tables re-read, setter-supplied distances; uxarray's njit functions run compiled")
    return result(run.cases, len(names), run.failures, bound, samples)



def consumers(tier, seed):
    """the edge distances a grid reports are unchanged by operations that only read them (shared machinery: standins.C03.consumers - every watched variable is compared with a copy taken before each of 20
    read-only operations: differences, gradients, aggregations, integration, remapping, subsetting, tree queries, plotting
    conversions, exports, area / bounds / dual construction)"""
    from .C03 import consumers as _consumers
    return _consumers(tier, seed, tables=('edge_node_distances', 'edge_face_distances'), oracle_after=False)
