#!/usr/bin/env python3-vt
"""tools/vf.py <qualname[@variant]> ...: verify single functions against /repo (or VERIF_REPO) and print the summary (dev aid)."""
import os, sys, time
sys.path.insert(0, os.path.dirname(os.path.dirname(os.path.abspath(__file__))))
from pyvc.verify import verify_function, summarize
for q in sys.argv[1:]:
    t = time.time()
    r = verify_function(q, {"canary": True}, 10000, repo_root=os.environ.get("VERIF_REPO", "/repo"))
    sm = summarize(r)
    print(q, {k: sm[k] for k in ("status", "reason", "n", "discharged", "failed", "undecided")}, round(time.time() - t, 1))
