#!/usr/bin/env python3
"""tools/mk_seed_prompts.py Cxx ... : write /tmp/seedtools/prompt_<Cxx><letter>.txt for the next seed series of each property and
create the scratch worktree /tmp/wt_<Cxx><letter> of /repo HEAD.  The prompt carries ONLY the property text (+ what earlier seeds
did, so that the new one differs); nothing from /verif's machinery."""
import json, os, re, subprocess, sys

HERE = os.path.dirname(os.path.dirname(os.path.abspath(__file__)))
props = {json.loads(l)["id"]: json.loads(l) for l in open(os.path.join(HERE, "properties.jsonl")) if l.strip()}
TEMPLATE = open(os.path.join(HERE, "tools", "seed_prompt_template.txt")).read()
os.makedirs("/tmp/seedtools", exist_ok=True)
subprocess.run(["cp", os.path.join(HERE, "tools", "run_baseline.py"), "/tmp/seedtools/run_baseline.py"], check=True)
for pid in sys.argv[1:]:
    have = sorted(d for d in os.listdir(os.path.join(HERE, "seeded")) if d.startswith(pid + "-"))
    letter = next(c for c in "abcdefghijklmnopqrstuvwxyz"[len(have):] if f"{pid}-{c}" not in have)
    avoid = []
    for d in have:
        try:
            m = json.load(open(os.path.join(HERE, "seeded", d, "meta.json")))
            avoid.append((m.get("summary") or "")[:170])
        except Exception:
            pass
    p = props[pid]
    anchors = json.dumps(p["anchors"].get("mechanism", []))
    tag = pid + letter
    txt = (TEMPLATE.replace("@WT@", f"/tmp/wt_{tag}").replace("@ID@", pid).replace("@TITLE@", p["title"])
           .replace("@STATEMENT@", p["statement"]).replace("@QUANT@", p["quantifier"]["text"]).replace("@ANCHORS@", anchors)
           .replace("@AVOID@", " ;; ".join(avoid)))
    open(f"/tmp/seedtools/prompt_{tag}.txt", "w").write(txt)
    subprocess.run(["git", "-C", "/repo", "worktree", "add", "-q", "--detach", f"/tmp/wt_{tag}", "HEAD"], check=True)
    print(tag)
