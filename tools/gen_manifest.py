#!/usr/bin/env python3
"""Regenerates MANIFEST.json from checks/Cxx.py (claimed) and tools/not_applicable.json (unclaimed).
Run from /verif:  python3 tools/gen_manifest.py"""
import ast
import json
import os

HERE = os.path.dirname(os.path.dirname(os.path.abspath(__file__)))


def consts(path):
    out = {}
    try:
        ns = {}
        exec(compile(open(path).read(), path, "exec"), ns)     # check modules are plain data
        out = {k: v for k, v in ns.items() if k.isupper()}
        out["__doc__"] = ns.get("__doc__") or ""
        return out
    except Exception:
        out = {}
    tree = ast.parse(open(path).read())
    out["__doc__"] = ast.get_docstring(tree) or ""
    for s in tree.body:
        if isinstance(s, ast.Assign) and len(s.targets) == 1 and isinstance(s.targets[0], ast.Name):
            try:
                out[s.targets[0].id] = ast.literal_eval(s.value)
            except Exception:
                pass
    return out


def main():
    ids = [json.loads(l)["id"] for l in open(os.path.join(HERE, "properties.jsonl")) if l.strip()]
    na = json.load(open(os.path.join(HERE, "tools", "not_applicable.json")))
    checks = []
    claimed = set()
    for pid in ids:
        p = os.path.join(HERE, "checks", pid + ".py")
        if not os.path.exists(p):
            continue
        c = consts(p)
        if not c.get("REGISTER", True):
            continue
        claimed.add(pid)
        if c.get("LEVEL", "proof") == "proof" and not c.get("FUNCTIONS") and not c.get("EXTRA"):
            c["LEVEL"] = "exploration"
        checks.append({
            "property_id": pid,
            "quick_cmd": f"./check {pid} --tier quick",
            "thorough_cmd": f"./check {pid} --tier thorough",
            "evidence_file": f"evidence/{pid}.json",
            "replay_cmd_template": f"./check {pid} --replay {{path}}",
            "engine": "pyvc",
            "level_claimed": {"category": c.get("LEVEL", "proof"),
                              "text": c.get("LEVEL_TEXT", c.get("EXPLANATION", "")),
                              "design_ref": f"DESIGN.md section 2 ({pid}) and section 7 (as built)"},
            "level_note": c.get("LEVEL_NOTE", "; ".join(c.get("ASSUMPTIONS", []))),
            "technique": c.get("TECHNIQUE", "contract-based deductive verification: sidecar contracts on the real functions, "
                                            "VCs generated from /repo's AST on every run, discharged by z3; bounded stand-ins labelled"),
        })
    nas = []
    for pid in ids:
        if pid in claimed:
            continue
        nas.append({"property_id": pid, "reason": na.get(pid, "check not built yet (work in progress); see DESIGN.md")})
    man = {
        "version": 1,
        "setup_cmd": "(python3-vt -m compileall -q pyvc contracts checks harness; /venv/bin/python tools/warm_jit.py) >/dev/null 2>&1 || true",
        "hooks": {
            "guard": "UXARRAY_VERIF",
            "enable": "no source hooks: contracts are sidecar files under /verif/contracts; UXARRAY_VERIF=1 is exported by "
                      "./check for in-process instrumentation (monkey-patching in the harness process) only",
            "baseline_off_cmd": "cd /repo && /venv/bin/python -m pytest -ra -q -p no:cacheprovider --timeout=900 --continue-on-collection-errors",
            "source_commits": [],
            "add_only": True,
        },
        "engines": [{"name": "pyvc", "path": "pyvc/", "serves_properties": sorted(claimed),
                     "kind_free_text": "own VC generator: python ast of /repo functions -> path-wise symbolic execution against "
                                       "sidecar contracts -> z3 (python API); counter-models replayed on the real code under "
                                       "/venv/bin/python; bounded stand-ins evaluate the same contract clauses at run time"}],
        "checks": checks,
        "notes": "exit codes of ./check: 0 held, 1 VIOLATION, 3 checker error. known_findings.json lists recorded defects "
                 "(KNOWN-FINDING lines) and repaired ones (fixed: ...).",
        "not_applicable": nas,
    }
    with open(os.path.join(HERE, "MANIFEST.json"), "w") as f:
        json.dump(man, f, indent=1)
    print("claimed", sorted(claimed), "not claimed", [n["property_id"] for n in nas])


if __name__ == "__main__":
    main()
