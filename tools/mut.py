#!/usr/bin/env python3-vt
"""tools/mut.py <qualname> <old> <new> [<old> <new> ...]: verify a function after a textual mutation of its source file, on a scratch
copy of /repo/uxarray (removed afterwards).  Prints the verdict per obligation that is not discharged.  Self-test aid: a
property-breaking mutation must turn a named obligation to `failed` (or at least `undecided`), never stay all-discharged."""
import os, shutil, sys, tempfile
sys.path.insert(0, os.path.dirname(os.path.dirname(os.path.abspath(__file__))))
q = sys.argv[1]
pairs = list(zip(sys.argv[2::2], sys.argv[3::2]))
td = tempfile.mkdtemp(prefix="mut_")
try:
    shutil.copytree("/repo/uxarray", os.path.join(td, "uxarray"))
    mod = q.split(".")
    # find the file
    for k in range(len(mod), 0, -1):
        f = os.path.join(td, *mod[:k]) + ".py"
        if os.path.exists(f):
            break
    s = open(f).read()
    for old, new in pairs:
        if s.count(old) < 1:
            print("pattern not found:", old); sys.exit(2)
        s = s.replace(old, new)
    open(f, "w").write(s)
    os.environ["VERIF_REPO"] = td
    import importlib, pyvc.repo
    pyvc.repo.REPO_ROOT = td
    from pyvc.verify import verify_function, summarize
    r = verify_function(q, {"canary": False}, 10000, repo_root=td)
    sm = summarize(r)
    print({k: sm[k] for k in ("status", "reason", "n", "discharged", "failed", "undecided")})
    from pyvc.contracts import load_all
    c = load_all().get(q)
    for fs in (c.finite_sizes or []):
        r = verify_function(q, {"canary": False, "finite": fs, "prefix": "finite:"}, 10000, repo_root=td)
        sm = summarize(r)
        print("finite", fs, {k: sm[k] for k in ("status", "reason", "n", "discharged", "failed", "undecided")})
finally:
    shutil.rmtree(td, ignore_errors=True)
