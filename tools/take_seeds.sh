#!/bin/bash
# tools/take_seeds.sh C20d C01e ... : confirm each finished seed worktree /tmp/wt_<tag> myself (demo fails with / passes without the
# change, baseline passes with it), keep it as seeded/<Cxx>-<letter>/, write its meta.json, remove the worktree.
cd "$(dirname "$0")/.."
one() {
  tag=$1; P=${tag:0:3}; L=${tag:3}; id=$P-$L
  r=$(tools/confirm_seed.sh /tmp/wt_$tag $id 2>&1 | tail -1)
  python3 tools/mk_meta.py $id >/dev/null 2>&1
  git -C /repo worktree remove --force /tmp/wt_$tag
  echo "$id $r"
}
export -f one
echo "$@" | tr ' ' '\n' | xargs -P 6 -I{} bash -c 'one {}'
git -C /repo worktree prune
