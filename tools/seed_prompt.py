#!/usr/bin/env python3
"""prints the prompt given to a fresh sub-agent that seeds a property-breaking change (no /verif content in it
apart from the property text itself)"""
import json, sys
pid = sys.argv[1]
wt = sys.argv[2]
extra = sys.argv[3] if len(sys.argv) > 3 else ""
prop = [json.loads(l) for l in open("/verif/properties.jsonl") if l.strip() and json.loads(l)["id"] == pid][0]
print(f"""You are helping to evaluate a verification tool by producing a realistic regression ("seeded bug") in the Python library
uxarray (Xarray extension for unstructured climate grids). You have your own scratch git worktree of the repository at {wt}
(a checkout of the pinned commit). Work ONLY inside {wt} (and /tmp/seedtools for the helper). Do NOT read or touch /repo, /verif or
any other directory; do not use the network (there is none).

The semantic property that must be BROKEN by your change:

  id: {prop['id']}
  title: {prop['title']}
  statement: {prop['statement']}
  quantifier: {prop['quantifier']['text']}
  code anchors: {json.dumps(prop['anchors'].get('mechanism', prop['anchors'].get('files')))[:1500]}

Task: make ONE small, realistic source change under {wt}/uxarray/ (the kind of thing a maintainer could plausibly commit during a
refactor, optimisation or "cleanup": an off-by-one, a swapped argument, a wrong index space, a dropped branch, a stale cache key, an
in-place mutation, a wrong unit, a changed comparison ...) such that:
 1. the library still imports and the EXISTING test-suite still passes exactly as before. Check with
      /venv/bin/python /tmp/seedtools/run_baseline.py {wt}
    (takes ~80 s; exit 0 and "missing=0" means all 177 stable tests still pass; about 90 other tests fail offline even on the
    unchanged tree - that is expected and ignored).
 2. the property above is violated by the changed code, but NOT on every ordinary use: the violation should need something specific
    to manifest - an unusual input (mixed face sizes with padding, a particular padding layout, n_node == n_face, a pole, the
    antimeridian, a boundary edge, an isolated face ...), a multi-step sequence of operations, a particular order of first accesses,
    or two cooperating sites that each look fine alone. {extra}
 3. you provide a demonstration: a small stand-alone script {wt}/seed/demo.py that exits 0 (prints PASS) on the unchanged code and
    exits 1 (prints FAIL and what went wrong) with your change applied. It must run with
      cd {wt} && PYTHONPATH={wt} /venv/bin/python seed/demo.py
    and build its inputs in memory (e.g. ux.Grid.from_topology(node_lon=..., node_lat=..., face_node_connectivity=..., fill_value=...),
    ux.Grid.from_face_vertices, xarray datasets built in code); the mesh files under test/meshfiles may also be used (some are empty
    offline). Verify BOTH directions yourself (git stash / git stash pop, or git diff > patch; git checkout; run; git apply).
 4. The change must not touch tests, and must not be a change of behaviour that the property does not talk about.

Useful facts: /venv/bin/python has uxarray's dependencies; setting NUMBA_DISABLE_JIT=1 makes first calls fast. The fill value is
uxarray.constants.INT_FILL_VALUE (= int64 min). Run python always with PYTHONPATH={wt} and cwd {wt} so that the worktree's uxarray is
imported (check uxarray.__file__).

Deliverables (all under {wt}/seed/): patch.diff (output of `git -C {wt} diff -- uxarray` with your change applied), demo.py, and
meta.json with keys: property, summary (one sentence what was changed, file:function), needs (what is required for the violation to
manifest), ran (commands you ran and their outcome: baseline with change, demo with and without change).
Leave the worktree with the change APPLIED (uncommitted). In your final answer, report the summary, the needs, and the outcomes of the
three runs. Keep the change minimal (a few lines). If your first idea makes an existing test fail, pick another site.""")
