#!/venv/bin/python
"""Warms numba's on-disk cache for the njit functions of /repo (they are declared with cache=True), so that the first quick
check after a fresh restore does not spend its time budget compiling.  Purely a speed-up: every check also works cold."""
import os, sys, time, warnings
os.environ["NUMBA_DISABLE_JIT"] = "0"
warnings.filterwarnings("ignore")
sys.path.insert(0, os.path.join(os.path.dirname(os.path.dirname(os.path.abspath(__file__))), "harness"))
t0 = time.time()
try:
    import numpy as np
    import uxarray as ux
    from standins import meshgen as mg
    from standins.common import grid_of
    for m in (mg.quad_patch(2, 2), mg.small_meshes()[6], mg.cube(), mg.uv_sphere(6, 4)):
        g = grid_of(m)
        for attr in ("n_nodes_per_face", "edge_node_connectivity", "face_edge_connectivity", "edge_face_connectivity",
                     "node_face_connectivity", "face_face_connectivity", "node_x", "face_lon", "face_x", "edge_lon", "edge_x",
                     "face_areas", "bounds", "edge_node_distances", "edge_face_distances", "hole_edge_indices"):
            try:
                getattr(g, attr)
            except Exception as e:  # noqa
                print("warm:", m["name"], attr, type(e).__name__)
        for call in (lambda: g.compute_face_areas("gaussian", 4), lambda: g.get_dual(),
                     lambda: g.cross_section.constant_latitude(3.0), lambda: g.to_polycollection(),
                     lambda: g.get_ball_tree("face centers").query([0.0, 0.0], k=1), lambda: g.isel(n_face=[0]).face_areas):
            try:
                call()
            except Exception as e:  # noqa
                pass
        v = ux.UxDataArray(np.arange(g.n_face, dtype=float), dims=["n_face"], uxgrid=g, name="v")
        for call in (lambda: v.integrate(), lambda: v.gradient(), lambda: v.difference()):
            try:
                call()
            except Exception:
                pass
except Exception as e:  # noqa
    print("warm_jit skipped:", type(e).__name__, e)
print(f"warm_jit done in {time.time() - t0:.1f}s")
