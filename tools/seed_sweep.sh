#!/bin/bash
# tools/seed_sweep.sh [seed-id ...]: apply each seeded change to a scratch worktree of /repo HEAD, run the property's quick check
# against it (VERIF_REPO), record whether it is detected; worktrees are removed afterwards.  Results: /verif/seeded/SWEEP.md
HERE="$(cd "$(dirname "${BASH_SOURCE[0]}")/.." && pwd)"
cd "$HERE"
export HERE
ids="$@"; [ -z "$ids" ] && ids=$(ls seeded | grep -v SWEEP)
run_one() {
  id=$1; prop=${id%%-*}; wt=/tmp/sw_${id}_$$
  git -C /repo worktree add -q --detach $wt HEAD 2>/dev/null || { echo "$id worktree-failed"; return; }
  pf=$HERE/seeded/$id/patch.diff; [ -f $HERE/seeded/$id/patch.rebased.diff ] && pf=$HERE/seeded/$id/patch.rebased.diff
  if ! git -C $wt apply $pf >/tmp/sw_$id.apply 2>&1; then
     if ! (cd $wt && patch -p1 -F3 --no-backup-if-mismatch < $pf >>/tmp/sw_$id.apply 2>&1); then
        echo "$id PATCH-DOES-NOT-APPLY (code changed by a fix)"; git -C /repo worktree remove --force $wt; return; fi; fi
  (cd $HERE && VERIF_REPO=$wt ./check $prop) > /tmp/sw_$id.log 2>&1; ec=$?
  v=$(grep -c "^VIOLATION" /tmp/sw_$id.log)
  first=$(grep -m1 "failed obligation" /tmp/sw_$id.log | cut -c1-160)
  echo "$id exit=$ec violations=$v $first"
  git -C /repo worktree remove --force $wt
}
export -f run_one
# one seed per property at a time (evidence/replays are per property): group by round
rm -f $HERE/sweep_out.txt /tmp/sweep_out.txt
round=1
remaining="$ids"
while [ -n "$remaining" ]; do
  seen=""; next=""; batch=""
  for id in $remaining; do p=${id%%-*}; if echo "$seen" | grep -qw $p; then next="$next $id"; else seen="$seen $p"; batch="$batch $id"; fi; done
  echo $batch | tr ' ' '\n' | grep . | xargs -P 8 -I{} bash -c 'run_one {}' | tee -a $HERE/sweep_out.txt /tmp/sweep_out.txt
  remaining="$next"
done
git -C /repo worktree prune
