#!/usr/bin/env python3
"""tools/triage.py Cxx [standin-name] [seed]: run the stand-in(s) of a property and list failing keys (not matched by known findings)"""
import json, os, subprocess, sys, ast
pid = sys.argv[1]
V = os.path.dirname(os.path.dirname(os.path.abspath(__file__)))
src = open(f"{V}/checks/{pid}.py").read()
names = [sys.argv[2]] if len(sys.argv) > 2 and not sys.argv[2].isdigit() else None
if names is None:
    for s in ast.parse(src).body:
        if isinstance(s, ast.Assign) and s.targets[0].id == "STANDINS":
            names = ast.literal_eval(s.value)
seed = int(sys.argv[-1]) if sys.argv[-1].isdigit() else 0
known = json.load(open(f"{V}/known_findings.json"))
kk = {k.get("standin_key") for k in known["findings"] if k.get("property") == pid}
for n in names:
    job = f"/tmp/triage_{pid}_{n}.json"
    json.dump({"property": pid, "name": n, "tier": os.environ.get("TIER", "quick"), "seed": seed}, open(job, "w"))
    env = dict(os.environ); env["PYTHONPATH"] = f"{V}:{V}/harness"
    out = subprocess.run(["/venv/bin/python", f"{V}/harness/run_standin.py", job], capture_output=True, text=True, env=env)
    try:
        d = json.loads(out.stdout.strip().splitlines()[-1])
    except Exception:
        print("NO JSON", out.stdout[-500:], out.stderr[-1500:]); continue
    print(f"== {pid}.{n}: cases={d.get('cases')} distinct={d.get('distinct')} error={d.get('error')} {str(d.get('trace',''))[-400:]}")
    for f in d.get("failures", []):
        k = f.get("key") or f.get("violated") or f.get("what")
        print(("   known  " if k in kk else "   NEW    ") + str(k))
        if k not in kk and os.environ.get("V"):
            print("          ", json.dumps({x: f.get(x) for x in ("what", "observed", "expected", "inputs")}, default=str)[:500])
