#!/usr/bin/env python3
"""tools/add_finding.py Cxx standin key 'what fails (input / call site)' ['where'] : record a genuine, unrepaired defect"""
import json, sys
pid, standin, key, what = sys.argv[1:5]
where = sys.argv[5] if len(sys.argv) > 5 else ""
p = "/verif/known_findings.json"
d = json.load(open(p))
if any(f.get("property") == pid and f.get("standin_key") == key for f in d["findings"]):
    print("already there"); sys.exit(0)
n = sum(1 for f in d["findings"] if f["property"] == pid) + 1
d["findings"].append({"id": f"{pid}-F{n}", "property": pid, "standin": standin, "standin_key": key, "what": what, "where": where})
json.dump(d, open(p, "w"), indent=1)
print("added", f"{pid}-F{n}")
