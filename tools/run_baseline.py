#!/venv/bin/python
"""Run the pinned baseline test suite in a given checkout of uxarray and compare with the
stable-pass list of /root/.vp/BASELINE.json.   usage: run_baseline.py <checkout-dir>
exit 0 = every stable-pass test passed; exit 1 = some stable-pass test failed (listed)."""
import json
import os
import subprocess
import sys
import tempfile
import xml.etree.ElementTree as ET

d = os.path.abspath(sys.argv[1] if len(sys.argv) > 1 else "/repo")
base = json.load(open("/root/.vp/BASELINE.json"))
with tempfile.TemporaryDirectory() as td:
    xmlp = os.path.join(td, "junit.xml")
    env = dict(os.environ)
    env.pop("UXARRAY_VERIF", None)
    env["PYTHONPATH"] = d
    p = subprocess.run(["/venv/bin/python", "-m", "pytest", "-q", "-p", "no:cacheprovider", "--timeout=900",
                        "--continue-on-collection-errors", "-x" if False else "-q", f"--junitxml={xmlp}"],
                       cwd=d, env=env, capture_output=True, text=True)
    passed = set()
    for tc in ET.parse(xmlp).getroot().iter("testcase"):
        if not any(ch.tag in ("failure", "error", "skipped") for ch in tc):
            passed.add(f"{tc.get('classname')}::{tc.get('name')}")
    # make sure the tests really imported uxarray from the checkout
missing = [t for t in base["stable_pass"] if t not in passed]
print(f"checkout={d} stable_pass={len(base['stable_pass'])} passed_now={len(passed)} missing={len(missing)}")
for t in missing[:40]:
    print("  NOT PASSING:", t)
sys.exit(1 if missing else 0)
