#!/bin/bash
# confirm_seed.sh <worktree> <seed-id> : confirm a sub-agent's seeded change myself, then keep it under /verif/seeded/<seed-id>/
# (demo passes without the change, fails with it, baseline tests still pass with it); removes nothing.
set -u
WT="$1"; ID="$2"
OUT=/verif/seeded/$ID
mkdir -p "$OUT"
cd "$WT" || exit 2
git diff -- uxarray > "$OUT/patch.diff"
[ -s "$OUT/patch.diff" ] || { echo "empty diff"; exit 2; }
cp seed/demo.py "$OUT/demo.py"; cp seed/meta.json "$OUT/meta.agent.json" 2>/dev/null
export NUMBA_DISABLE_JIT=${NUMBA_DISABLE_JIT:-0}
PYTHONPATH=$WT /venv/bin/python seed/demo.py > "$OUT/demo_with.log" 2>&1; W=$?
git checkout -q -- uxarray
PYTHONPATH=$WT /venv/bin/python seed/demo.py > "$OUT/demo_without.log" 2>&1; WO=$?
git apply "$OUT/patch.diff"
/venv/bin/python /verif/tools/run_baseline.py "$WT" > "$OUT/baseline_with.log" 2>&1; B=$?
echo "seed=$ID demo_with_change_exit=$W demo_without_change_exit=$WO baseline_with_change_exit=$B"
tail -1 "$OUT/baseline_with.log"
if [ $W -ne 0 ] && [ $WO -eq 0 ] && [ $B -eq 0 ]; then echo CONFIRMED; else echo NOT-CONFIRMED; fi
