#!/usr/bin/env python3
"""Regenerates section 7 of DESIGN.md from tools/design_sec7_template.md (hand-written text) and the data files:
checks/Cxx.py (functions under contract), known_findings.json, seeded/*/meta.json + seeded/SWEEP.txt."""
import json, os, re
V = os.path.dirname(os.path.dirname(os.path.abspath(__file__)))
t = open(f"{V}/tools/design_sec7_template.md").read()
ids = [json.loads(l)["id"] for l in open(f"{V}/properties.jsonl") if l.strip()]
rows = ["| property | functions under contract (variants merged) | stand-ins |", "|---|---|---|"]
for pid in ids:
    p = f"{V}/checks/{pid}.py"
    if not os.path.exists(p):
        continue
    ns = {}
    exec(compile(open(p).read(), p, "exec"), ns)
    fs = []
    for f in ns.get("FUNCTIONS", []):
        q = (f if isinstance(f, str) else f["q"]).replace("uxarray.", "", 1)
        base, _, var = q.partition("@")
        short = ".".join(base.split(".")[-2:]) if base.split(".")[-1] != "setter" else ".".join(base.split(".")[-3:])
        fs.append((short, var))
    merged = {}
    for s, v in fs:
        merged.setdefault(s, []).append(v)
    cells = [f"`{s}`" + (f" ×{len([x for x in vs if x])}" if any(vs) and len(vs) > 1 else "") for s, vs in merged.items()]
    rows.append(f"| {pid} | {', '.join(cells)} | {', '.join(ns.get('STANDINS', []))} |")
t = t.replace("{{TABLE_7_3}}", "\n".join(rows))
kf = json.load(open(f"{V}/known_findings.json"))
t = t.replace("{{FIXED}}", "\n".join("* " + f[len("fixed: "):].replace("property=", "") for f in kf["fixed"]))
t = t.replace("{{FINDINGS}}", "\n".join(f"* {f['id']} `{f['standin_key']}` — {f['what']} ({f['where']})" for f in kf["findings"]))
sweep = {}
sp = f"{V}/seeded/SWEEP.txt"
if os.path.exists(sp):
    for l in open(sp):
        m = re.match(r"(C\d+-\w) exit=(\d) violations=(\d+)\s*(?:failed obligation: )?(.*)", l.strip())
        if m:
            sweep[m.group(1)] = (m.group(2), m.group(3), m.group(4))
srows = ["| seed | change | caught by | first failing obligation |", "|---|---|---|---|"]
n_proof = n_standin = n_missed = 0
for sid in sorted(os.listdir(f"{V}/seeded")):
    mp = f"{V}/seeded/{sid}/meta.json"
    if not os.path.exists(mp):
        continue
    m = json.load(open(mp))
    ec, nv, first = sweep.get(sid, ("?", "?", ""))
    if m.get("neutralised"):
        kind = "no longer a violation (see note)" if ec != "1" else "FALSE ALARM?"
        first = "neutralised by a repair: " + m["neutralised"][:110]
        n_neutral = globals().get("n_neutral", 0) + 1
        globals()["n_neutral"] = n_neutral
    elif ec == "1":
        kind = "bounded stand-in" if first.startswith("standin:") else "proof obligation"
        n_proof += kind == "proof obligation"
        n_standin += kind == "bounded stand-in"
    else:
        kind = "NOT caught"
        n_missed += 1
    m["detected_by"] = {"check": f"./check {m['property']}", "exit": int(ec) if ec.isdigit() else None, "first_failed_obligation": first,
                        "kind": kind, "patch_used": "patch.rebased.diff" if os.path.exists(f"{V}/seeded/{sid}/patch.rebased.diff") else "patch.diff"}
    json.dump(m, open(mp, "w"), indent=1)
    srows.append(f"| {sid} | {(m.get('summary') or '')[:170].replace('|', '/').replace(chr(10), ' ')} | {kind} | `{first[:100].replace('|', '/')}` |")
t = t.replace("{{SEEDS}}", "\n".join(srows))
t = t.replace("{{SEED_SUMMARY}}", (f"{globals().get('n_neutral', 0)} seeded change(s) stopped being a violation after a repair of the library (the seed's own demo passes "
              "with the patch; the check correctly stays quiet).  " if globals().get('n_neutral') else "") +
              f"{n_proof + n_standin} of {n_proof + n_standin + n_missed} remaining seeded changes are caught by the quick checks: {n_proof} by a named proof "
              f"obligation (the VIOLATION names the obligation and, where the counter-model is executable, a replayed input), {n_standin} by a bounded "
              "stand-in.  Seeds that were first missed and what was changed because of them: C02-a (memory-layout ghost on `np.put(x.ravel())` + `np.pad` "
              "model + F-ordered generated inputs), C08-a (history contract on `Grid.face_areas`, `getattr` model), C03-b (contracts on the MPAS table "
              "parsers), C08-b / C11-a (contracts on the tree `coordinates` setters), C16-b (integer-dtype variants + `dtype_truncation` obligation), "
              "C19-b (explicit-spec stand-in; it also exposed that `from_dataset(ds, source_grid_spec=...)` adopted the caller's dataset — repaired), "
              "C01-b (ownership precondition on the in-place MPAS helpers), C12-b (remap history stand-in), C05-b (syntactic frame obligation on "
              "`compute_face_areas`).  Third / fourth batch (21 seeds): 13 were missed at first.  Caught after extending the PROOFS: C02-c "
              "(shared module-level attrs dict: contract on `_populate_edge_node_connectivity` with the module-constant frame), C15-c (memoised "
              "antimeridian side table: non-interference contract on `_grid_to_polygon_geodataframe`), C04-b (wrap missing when node_lat is read "
              "first: contracts on the lazy lon/lat properties), C09-c / C10-a (`_slice_from_grid`), C10-b (`Grid.copy`), C12-b (`_remap_grid_parse`), "
              "C17-c (aggregation wrappers), C19-a (caller-owned buffers in the lon-range contract), C19-c (`to_polycollection` in C19), C01-c "
              "(`_read_esmf`), C07-c (`_read_exodus`), C05-c (`calculate_face_area` fan structure), C20-c (`__ne__` in abstract mode), C02-d (face_edge "
              "tied to the reported edge table), C08-c (array-variant frame contracts of the conversions), C11-c (`query` dataflow), C03-a (now "
              "also a proof: `_build_face_face_connectivity`).  Caught after extending STAND-INS (written by sub-agents from the property text, "
              "checked by me for false alarms on the unchanged tree): C07-c (xyz-bearing non-unit sources), C15-c (projection frames / project "
              "flag), C05-c (equator-mirror Cartesian faces), C18-c (locally refined meshes), C02-d (source-supplied edge tables), C08-c "
              "(non-unit Cartesian-only sources), C20-c (access histories), C03-d (slices of grids with materialised tables).  Two of these "
              "extensions found genuine defects of the unchanged library (supplied edge table replaced: repaired; dual ring order on very "
              "coarse triangulations: recorded).")
d = open(f"{V}/DESIGN.md").read()
k = d.index("\n--------------------------------------------------------------------------\n\n## 7. As built")
open(f"{V}/DESIGN.md", "w").write(d[:k] + t)
print("section 7 regenerated:", n_proof, "proof,", n_standin, "stand-in,", n_missed, "missed")
