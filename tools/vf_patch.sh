#!/bin/bash
# tools/vf_patch.sh <patch.diff> <qualname[@variant]> ... : verify functions on a scratch copy of /repo/uxarray with a patch applied (dev aid)
P=$(realpath "$1"); shift
T=$(mktemp -d /tmp/vfp_XXXX); cp -r /repo/uxarray $T/uxarray
(cd $T && patch -p1 -s -F3 --no-backup-if-mismatch < $P) || { echo "patch failed"; rm -rf $T; exit 2; }
cd "$(dirname "$0")/.." && VERIF_REPO=$T tools/vf.py "$@"
rm -rf $T
