#!/usr/bin/env python3
"""tools/mk_meta.py <seed-id> ... : write seeded/<id>/meta.json from the agent's meta.agent.json + my confirmation logs."""
import json, os, sys
for sid in sys.argv[1:]:
    d = f"/verif/seeded/{sid}"
    a = {}
    try:
        a = json.load(open(f"{d}/meta.agent.json"))
    except Exception:
        pass
    bl = open(f"{d}/baseline_with.log").read().strip().splitlines()[-1]
    w = open(f"{d}/demo_with.log").read()
    wo = open(f"{d}/demo_without.log").read()
    prop = sid.split("-")[0]
    wt = f"/tmp/wt_{prop}{sid.split('-')[1]}"
    m = {"seed_id": sid, "property": prop,
         "summary": a.get("summary") or a.get("change") or "",
         "needs": a.get("needs") or "",
         "confirmed_by_me": {"cmd": f"tools/confirm_seed.sh {wt} {sid}",
                             "demo_with_change": "exit 1 (FAIL)" if "FAIL" in w else "exit !=0",
                             "demo_without_change": "exit 0 (PASS)" if "PASS" in wo else "exit 0",
                             "baseline_with_change": bl},
         "agent_ran": a.get("runs") or a.get("agent_ran") or a.get("ran") or []}
    old = {}
    if os.path.exists(f"{d}/meta.json"):
        old = json.load(open(f"{d}/meta.json"))
    if "detected_by" in old:
        m["detected_by"] = old["detected_by"]
    json.dump(m, open(f"{d}/meta.json", "w"), indent=1)
    print(sid, "summary" if m["summary"] else "NO-SUMMARY", list(a.keys()))
