"""C20 Grid equality distinguishes any difference in coordinates or connectivity"""
PROPERTY = "C20"
LEVEL = "proof"
FUNCTIONS = ["uxarray.grid.grid.Grid.__eq__", "uxarray.grid.grid.Grid.__ne__",
    "uxarray.grid.grid.Grid.node_lon", "uxarray.grid.grid.Grid.node_lat",
    "uxarray.grid.coordinates._populate_node_latlon",
    "uxarray.grid.coordinates._set_desired_longitude_range",
    'uxarray.grid.grid.Grid.copy',
    'uxarray.grid.grid.Grid.__init__@format',
    'uxarray.io._topology._process_connectivity']
CUSTOM_REPLAY = {
    "uxarray.grid.grid.Grid.__eq__": {"module": "standins.C20", "function": "replay_eq"},
    "uxarray.grid.grid.Grid.__ne__": {"module": "standins.C20", "function": "replay_eq"},
}
STANDINS = ["eq_matrix"]
ASSUMPTIONS = ["xarray.DataArray.equals(a, b) <=> same dims, shape and values (assumed contract, equivalence relation)",
               "Grid property reads (node_lon, node_lat, face_node_connectivity) are deterministic functions of the grid (C08)"]
EXPLANATION = "boolean structure of __eq__/__ne__ against the stated iff; reflexive/symmetric follow from the iff and the assumed equivalence"
LEVEL_TEXT = 'Grid.__eq__/__ne__ proved against the stated iff over all truth assignments of (format, lon, lat, connectivity) equal; reflexive/symmetric by the assumed equivalence of DataArray.equals; __ne__ proved in abstract mode: anything else it might consult (dimension sizes, derived tables, caches) is state two equal grids need not share; the node_lon / node_lat properties the comparison reads proved to yield the same wrapped longitude / latitude whichever of the two is read first on a Cartesian-only grid, and (_populate_node_latlon) to be a function of the stored Cartesian coordinates only, normalised first; Grid.__init__ proved to record as the format exactly the source_grid_spec it was constructed with, whatever the dataset handed in carries; the connectivity a grid is built from (_process_connectivity) proved to be a fresh array on every branch, so that editing the source array afterwards cannot change an existing grid and make it equal to a grid built from the edited source; exhaustive 16-case matrix on real grids and access-history pairs bounded'
LEVEL_NOTE = 'xarray.DataArray.equals assumed to be an equivalence on (dims, shape, values)'
