"""C06"""
PROPERTY = "C06"
LEVEL = "proof"
FUNCTIONS = []
STANDINS = ["integration"]
ASSUMPTIONS = []
EXPLANATION = ""
