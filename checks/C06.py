"""C06"""
PROPERTY = "C06"
LEVEL = "proof"
FUNCTIONS = ['uxarray.core.dataarray.UxDataArray.integrate@dims=n_face',
    'uxarray.core.dataarray.UxDataArray.integrate@dims=time,n_face',
    'uxarray.core.dataarray.UxDataArray.integrate@dims=time,lev,n_face',
    'uxarray.core.dataarray.UxDataArray.integrate@dims=n_node',
    'uxarray.core.dataarray.UxDataArray.integrate@dims=time,n_node',
    'uxarray.core.dataarray.UxDataArray.integrate@dims=n_edge',
    'uxarray.core.dataarray.UxDataArray.integrate@dims=lev,n_edge',
    'uxarray.core.dataarray.UxDataArray.integrate@dims=n_face,lev',
    'uxarray.core.dataarray.UxDataArray.integrate@dims=time']
STANDINS = ["integration"]
ASSUMPTIONS = []
EXPLANATION = ""
