"""C06"""
PROPERTY = "C06"
LEVEL = "proof"
FUNCTIONS = ['uxarray.core.dataarray.UxDataArray.integrate@dims=n_face',
    'uxarray.core.dataarray.UxDataArray.integrate@dims=time,n_face',
    'uxarray.core.dataarray.UxDataArray.integrate@dims=time,lev,n_face',
    'uxarray.core.dataarray.UxDataArray.integrate@dims=n_node',
    'uxarray.core.dataarray.UxDataArray.integrate@dims=time,n_node',
    'uxarray.core.dataarray.UxDataArray.integrate@dims=n_edge',
    'uxarray.core.dataarray.UxDataArray.integrate@dims=lev,n_edge',
    'uxarray.core.dataarray.UxDataArray.integrate@dims=n_face,lev',
    'uxarray.core.dataarray.UxDataArray.integrate@dims=time',
    'uxarray.grid.grid.Grid.calculate_total_face_area',
    'uxarray.grid.area.get_all_face_area_from_coords@dim=2',
    'uxarray.grid.area.get_all_face_area_from_coords@dim=3',
    'uxarray.grid.area.get_gauss_quadratureDG@n=1',
    'uxarray.grid.area.get_gauss_quadratureDG@n=2',
    'uxarray.grid.area.get_gauss_quadratureDG@n=3',
    'uxarray.grid.area.get_gauss_quadratureDG@n=4',
    'uxarray.grid.area.get_gauss_quadratureDG@n=5',
    'uxarray.grid.area.get_gauss_quadratureDG@n=6',
    'uxarray.grid.area.get_gauss_quadratureDG@n=7',
    'uxarray.grid.area.get_gauss_quadratureDG@n=8',
    'uxarray.grid.area.get_gauss_quadratureDG@n=9',
    'uxarray.grid.area.get_gauss_quadratureDG@n=10',
    'uxarray.grid.area.get_tri_quadratureDG@order=1',
    'uxarray.grid.area.get_tri_quadratureDG@order=4',
    'uxarray.grid.area.get_tri_quadratureDG@order=8',
    'uxarray.grid.area.get_tri_quadratureDG@order=10',
    'uxarray.grid.area.get_tri_quadratureDG@order=12']
STANDINS = ["integration"]
ASSUMPTIONS = []
EXPLANATION = ""
LEVEL_TEXT = 'the quadrature tables behind every rule/order integrate can be asked for (Gauss n=1..10, triangular orders 1,4,8,10,12) proved exact to their degree (weights sum, moments); the area kernel behind integrate (get_all_face_area_from_coords) proved to integrate every face over exactly its own corners, whatever the sizes of the faces before it; UxDataArray.integrate proved for nine concrete dims layouts with symbolic, independent element counts (n_node == n_face allowed): face-centred data -> weighted sum with the areas of the requested rule/order, dims/name/grid; everything else raises ValueError; values/linearity/Dataset variant bounded'
LEVEL_NOTE = "einsum('i,...i') and compute_face_areas as uninterpreted functions; dims tuples enumerated (9 layouts)"
