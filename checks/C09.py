"""C09"""
PROPERTY = "C09"
LEVEL = "proof"
FUNCTIONS = ['uxarray.grid.intersections.fast_constant_lat_intersections']
STANDINS = ["subsets"]
ASSUMPTIONS = []
EXPLANATION = ""
