"""C09"""
PROPERTY = "C09"
LEVEL = "proof"
FUNCTIONS = ['uxarray.grid.intersections.fast_constant_lat_intersections',
    'uxarray.core.dataarray.UxDataArray._slice_from_grid@dims=time,n_face',
    'uxarray.core.dataarray.UxDataArray._slice_from_grid@dims=n_face',
    'uxarray.core.dataarray.UxDataArray._slice_from_grid@dims=n_node',
    'uxarray.core.dataarray.UxDataArray._slice_from_grid@dims=lev,n_edge',
    'uxarray.core.dataarray.UxDataArray._slice_from_grid@dims=time',
    'uxarray.core.dataarray.UxDataArray.isel@dims=time,n_face',
    'uxarray.core.dataarray.UxDataArray.isel@dims=n_node',
    'uxarray.core.dataarray.UxDataArray.isel@dims=lev,n_edge',
    'uxarray.grid.grid.Grid.isel@n_node',
    'uxarray.grid.grid.Grid.isel@n_edge',
    'uxarray.grid.grid.Grid.isel@n_face',
    'uxarray.grid.grid.Grid.isel@two_dims',
    "uxarray.subset.grid_accessor.GridSubsetAccessor._index_grid@nodes",
    "uxarray.subset.grid_accessor.GridSubsetAccessor._index_grid@edge centers",
    "uxarray.subset.grid_accessor.GridSubsetAccessor._index_grid@face centers",
    "uxarray.subset.grid_accessor.GridSubsetAccessor.nearest_neighbor@nodes",
    "uxarray.subset.grid_accessor.GridSubsetAccessor.nearest_neighbor@edge centers",
    "uxarray.subset.grid_accessor.GridSubsetAccessor.nearest_neighbor@face centers",
    "uxarray.subset.grid_accessor.GridSubsetAccessor.bounding_circle@nodes",
    "uxarray.subset.grid_accessor.GridSubsetAccessor.bounding_circle@edge centers",
    "uxarray.subset.grid_accessor.GridSubsetAccessor.bounding_circle@face centers",
    'uxarray.grid.slice._slice_face_indices',
    'uxarray.grid.slice._slice_node_indices',
    'uxarray.grid.slice._slice_edge_indices',
    'uxarray.grid.slice._slice_face_indices@source_is_itself_a_subset',
    'uxarray.grid.grid.Grid.get_ball_tree',
    'uxarray.grid.grid.Grid.get_kd_tree',
    'uxarray.grid.grid.Grid.get_faces_at_constant_latitude']
STANDINS = ["subsets"]
ASSUMPTIONS = []
EXPLANATION = ""
LEVEL_TEXT = 'the slicing routines proved in dataflow form: node / edge selections keep exactly the faces listed in the selected rows of node_face / edge_face_connectivity (padding removed); _slice_face_indices hands Grid.from_dataset a dataset with no source-indexed incidence table, no face_edge table, hole edges or edge-face distances, the per-element variables kept, and node / edge index sets determined by the corner / edge rows of the kept faces only; fast_constant_lat_intersections proved (loop invariant): selected edges are exactly those whose end nodes lie strictly on opposite sides of the parallel, increasing, no duplicates; the subset accessor proved to query the tree of the REQUESTED element kind (ball tree for lon/lat, k-d tree for xyz query points) and to slice the grid along the dimension of that kind; Grid.isel proved to dispatch each grid dimension to its own slicing routine, UxDataArray.isel proved to slice the grid of the array along the requested dimension and to re-attach the data through _slice_from_grid; UxDataArray._slice_from_grid proved (dataflow): the data are indexed along THEIR OWN grid dimension with exactly the indices the grid slice recorded, and the result carries the sliced grid; slicing/renumbering of the grid itself, boxes, circles bounded (independent geometric oracle)'
LEVEL_NOTE = 'prange treated as range (A-NUMBA): each iteration writes only its own mask cell; argwhere/unique models'
