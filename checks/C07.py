"""C07 Encoding a grid and reading it back preserves the grid"""
PROPERTY = "C07"
LEVEL = "proof"
FUNCTIONS = ['uxarray.io._ugrid._encode_ugrid',
    'uxarray.io._ugrid._standardize_connectivity',
    'uxarray.io._exodus._read_exodus@coordxyz',
    'uxarray.io._exodus._read_exodus@coordxyz2',
    'uxarray.grid.grid.Grid.to_xarray@ugrid',
    'uxarray.grid.grid.Grid.to_xarray@exodus',
    'uxarray.grid.grid.Grid.to_xarray@scrip',
    'uxarray.grid.grid.Grid.to_xarray@bogus',
    'uxarray.grid.grid.Grid.encode_as@UGRID',
    'uxarray.grid.grid.Grid.encode_as@Exodus',
    'uxarray.grid.grid.Grid.encode_as@SCRIP',
    'uxarray.grid.grid.Grid.encode_as@bogus']
STANDINS = ["roundtrip"]
ASSUMPTIONS = []
EXPLANATION = ""
LEVEL_TEXT = 'Grid.to_xarray / Grid.encode_as proved to hand each format name to its own encoder with the dataset / tables of THIS grid (unknown names rejected); _read_exodus proved in dataflow form (separate coordx/y/z layout, one or two element blocks): node_x/y/z are the stored arrays, node_lon/lat the lon/lat of THEIR DIRECTION (normalising conversion), nothing of the source written; _encode_ugrid proved for every dataset satisfying the Grid invariant: each variable / coordinate / dimension named by the grid_topology attributes exists, internal helper attributes are stripped, the module-level attribute templates and the caller (Grid) dataset are never stored into (ownership frames), the result is a new object; Exodus / SCRIP encoders and the encode -> open -> compare round trip incl. NetCDF are bounded (catalogue meshes x materialised quantities x earlier encodings)'
LEVEL_NOTE = 'xarray Dataset modelled as symbolic mappings of variables / dims / attrs (copy, drop_vars, item access); Exodus / SCRIP encoders build names by string concatenation and are not under contract'
