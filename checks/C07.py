"""C07 Encoding a grid and reading it back preserves the grid"""
PROPERTY = "C07"
LEVEL = "proof"
FUNCTIONS = []
STANDINS = ["roundtrip"]
ASSUMPTIONS = []
EXPLANATION = ""
