"""C07 Encoding a grid and reading it back preserves the grid"""
PROPERTY = "C07"
LEVEL = "proof"
FUNCTIONS = []
STANDINS = ["roundtrip"]
ASSUMPTIONS = []
EXPLANATION = ""
LEVEL_TEXT = 'bounded stand-in only so far: encode -> open -> compare for UGRID/Exodus/SCRIP x materialised derived quantities x earlier encodings, NetCDF write, module constants'
LEVEL_NOTE = 'no function under contract yet (encoders build variable names from strings; _encode_ugrid frame contract planned)'
