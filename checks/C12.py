"""C12"""
PROPERTY = "C12"
LEVEL = "proof"
FUNCTIONS = ['uxarray.remap.nearest_neighbor._nearest_neighbor@rank1',
    'uxarray.remap.nearest_neighbor._nearest_neighbor@rank2',
    'uxarray.remap.utils._remap_grid_parse@spherical,nodes',
    'uxarray.remap.utils._remap_grid_parse@spherical,face centers',
    'uxarray.remap.utils._remap_grid_parse@spherical,edge centers',
    'uxarray.remap.utils._remap_grid_parse@cartesian,nodes',
    'uxarray.remap.utils._remap_grid_parse@cartesian,face centers',
    'uxarray.remap.utils._remap_grid_parse@cartesian,edge centers',
    "uxarray.remap.nearest_neighbor._nearest_neighbor_uxda@nodes;dims=n_node",
    "uxarray.remap.nearest_neighbor._nearest_neighbor_uxda@nodes;dims=time,n_face",
    "uxarray.remap.nearest_neighbor._nearest_neighbor_uxda@edge centers;dims=n_node",
    "uxarray.remap.nearest_neighbor._nearest_neighbor_uxda@edge centers;dims=time,n_face",
    "uxarray.remap.nearest_neighbor._nearest_neighbor_uxda@face centers;dims=n_node",
    "uxarray.remap.nearest_neighbor._nearest_neighbor_uxda@face centers;dims=time,n_face",
    "uxarray.remap.inverse_distance_weighted._inverse_distance_weighted_remap_uxda@nodes;dims=n_node",
    "uxarray.remap.inverse_distance_weighted._inverse_distance_weighted_remap_uxda@nodes;dims=time,n_face",
    "uxarray.remap.inverse_distance_weighted._inverse_distance_weighted_remap_uxda@edge centers;dims=n_node",
    "uxarray.remap.inverse_distance_weighted._inverse_distance_weighted_remap_uxda@edge centers;dims=time,n_face",
    "uxarray.remap.inverse_distance_weighted._inverse_distance_weighted_remap_uxda@face centers;dims=n_node",
    "uxarray.remap.inverse_distance_weighted._inverse_distance_weighted_remap_uxda@face centers;dims=time,n_face",
    'uxarray.remap.nearest_neighbor._nearest_neighbor_uxda@same_grid;nodes;dims=n_node',
    'uxarray.remap.inverse_distance_weighted._inverse_distance_weighted_remap_uxda@same_grid;nodes;dims=n_node',
    'uxarray.remap.nearest_neighbor._nearest_neighbor_uxda@same_grid;nodes;dims=time,n_face',
    'uxarray.remap.inverse_distance_weighted._inverse_distance_weighted_remap_uxda@same_grid;nodes;dims=time,n_face',
    'uxarray.remap.nearest_neighbor._nearest_neighbor_uxda@same_grid;edge centers;dims=n_node',
    'uxarray.remap.inverse_distance_weighted._inverse_distance_weighted_remap_uxda@same_grid;edge centers;dims=n_node',
    'uxarray.remap.nearest_neighbor._nearest_neighbor_uxda@same_grid;edge centers;dims=time,n_face',
    'uxarray.remap.inverse_distance_weighted._inverse_distance_weighted_remap_uxda@same_grid;edge centers;dims=time,n_face',
    'uxarray.remap.nearest_neighbor._nearest_neighbor_uxda@same_grid;face centers;dims=n_node',
    'uxarray.remap.inverse_distance_weighted._inverse_distance_weighted_remap_uxda@same_grid;face centers;dims=n_node',
    'uxarray.remap.nearest_neighbor._nearest_neighbor_uxda@same_grid;face centers;dims=time,n_face',
    'uxarray.remap.inverse_distance_weighted._inverse_distance_weighted_remap_uxda@same_grid;face centers;dims=time,n_face']
STANDINS = ["remapping", "remap_history"]
ASSUMPTIONS = []
EXPLANATION = ""
LEVEL_TEXT = '_nearest_neighbor proved (rank 1 and 2): every destination value is the value of one in-range source element for the same leading index (no invented values), given the neighbour search as an assumed contract; _remap_grid_parse proved in dataflow form for 2 coordinate systems x 3 destinations: destination points are the requested element kind of the DESTINATION grid, the neighbours come from a tree over the elements of the SOURCE grid of the kind the data live on (count tests in the order python evaluates them), rebuilt for this call (reconstruct=True); the UxDataArray wrappers of both methods proved to hand the grid and data of THIS array to the kernel and to attach the result to the DESTINATION grid with the last dimension renamed to the destination element kind; the neighbour search itself, identity on own elements and IDW convexity/monotonicity are bounded (brute-force great circle, one-hot fields)'
LEVEL_NOTE = 'sklearn tree query and Grid.get_ball_tree summarised (in-range indices assumed); single destination point excluded (recorded finding); IDW arithmetic not under contract'
