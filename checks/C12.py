"""C12"""
PROPERTY = "C12"
LEVEL = "proof"
FUNCTIONS = []
STANDINS = ["remapping"]
ASSUMPTIONS = []
EXPLANATION = ""
LEVEL_TEXT = 'bounded stand-in only: nearest neighbour vs brute-force great circle, identity on own elements, IDW convexity/monotonicity via one-hot fields'
LEVEL_NOTE = 'no function under contract yet'
