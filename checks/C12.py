"""C12"""
PROPERTY = "C12"
LEVEL = "proof"
FUNCTIONS = []
STANDINS = ["remapping"]
ASSUMPTIONS = []
EXPLANATION = ""
