"""C12"""
PROPERTY = "C12"
LEVEL = "proof"
FUNCTIONS = ['uxarray.remap.nearest_neighbor._nearest_neighbor@rank1',
    'uxarray.remap.nearest_neighbor._nearest_neighbor@rank2',
    'uxarray.remap.utils._remap_grid_parse@spherical,nodes',
    'uxarray.remap.utils._remap_grid_parse@spherical,face centers',
    'uxarray.remap.utils._remap_grid_parse@spherical,edge centers',
    'uxarray.remap.utils._remap_grid_parse@cartesian,nodes',
    'uxarray.remap.utils._remap_grid_parse@cartesian,face centers',
    'uxarray.remap.utils._remap_grid_parse@cartesian,edge centers']
STANDINS = ["remapping", "remap_history"]
ASSUMPTIONS = []
EXPLANATION = ""
LEVEL_TEXT = '_nearest_neighbor proved (rank 1 and 2): every destination value is the value of one in-range source element for the same leading index (no invented values), given the neighbour search as an assumed contract; _remap_grid_parse proved in dataflow form for 2 coordinate systems x 3 destinations: destination points are the requested element kind of the DESTINATION grid, the neighbours come from a tree over the elements of the SOURCE grid of the kind the data live on (count tests in the order python evaluates them), rebuilt for this call (reconstruct=True); the neighbour search itself, identity on own elements and IDW convexity/monotonicity are bounded (brute-force great circle, one-hot fields)'
LEVEL_NOTE = 'sklearn tree query and Grid.get_ball_tree summarised (in-range indices assumed); single destination point excluded (recorded finding); IDW arithmetic not under contract'
