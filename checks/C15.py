"""C15"""
PROPERTY = "C15"
LEVEL = "proof"
FUNCTIONS = ['uxarray.grid.geometry._pad_closed_face_nodes',
    'uxarray.grid.grid.Grid.to_linecollection',
    'uxarray.grid.grid.Grid.to_polycollection']
STANDINS = ["geometry_export"]
ASSUMPTIONS = []
EXPLANATION = ""
