"""C15"""
PROPERTY = "C15"
LEVEL = "proof"
FUNCTIONS = []
STANDINS = ["geometry_export"]
ASSUMPTIONS = []
EXPLANATION = ""
