"""C15"""
PROPERTY = "C15"
LEVEL = "proof"
FUNCTIONS = ['uxarray.grid.geometry._pad_closed_face_nodes',
    'uxarray.grid.grid.Grid.to_linecollection',
    'uxarray.grid.grid.Grid.to_polycollection',
    'uxarray.grid.geometry._grid_to_polygon_geodataframe@split,geopandas',
    'uxarray.grid.geometry._grid_to_polygon_geodataframe@split,spatialpandas',
    'uxarray.grid.geometry._grid_to_polygon_geodataframe@ignore,geopandas',
    'uxarray.grid.geometry._grid_to_polygon_geodataframe@ignore,spatialpandas',
    'uxarray.grid.geometry._grid_to_polygon_geodataframe@exclude,geopandas',
    'uxarray.grid.geometry._grid_to_polygon_geodataframe@exclude,spatialpandas',
    'uxarray.grid.grid.Grid.to_geodataframe',
    'uxarray.grid.geometry._build_antimeridian_face_indices',
    'uxarray.grid.grid.Grid.__init__@class_state']
STANDINS = ["geometry_export", "gdf_frames", "cache_sequences"]
ASSUMPTIONS = []
EXPLANATION = ""
LEVEL_TEXT = '_build_antimeridian_face_indices proved for every shell table: exactly the faces with an edge spanning at least 180 degrees, in increasing order (np.diff / np.any(axis) / np.argwhere modelled); _pad_closed_face_nodes proved (loop invariant): row = corners then copies of the first corner; to_linecollection / to_polycollection / to_geodataframe proved to depend only on their arguments from every cache state (polycollection returns a private deep copy; the GeoDataFrame cache-miss value is proved to be a function of exactly the cache key, over all pairs of paths); _grid_to_polygon_geodataframe proved non-interferent: its frame, NaN side table and the antimeridian side table it leaves on the grid depend on (grid, projection, project) only; vertices, antimeridian handling, data alignment bounded'
LEVEL_NOTE = 'matplotlib/shapely/cartopy/antimeridian builders as uninterpreted functions; abstract mode (library calls / operators on uninterpreted values are deterministic pure functions); geometry builders summarised; Grid accessors assumed stable (C08)'
