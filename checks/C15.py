"""C15"""
PROPERTY = "C15"
LEVEL = "proof"
FUNCTIONS = ['uxarray.grid.geometry._pad_closed_face_nodes']
STANDINS = ["geometry_export"]
ASSUMPTIONS = []
EXPLANATION = ""
