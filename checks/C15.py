"""C15"""
PROPERTY = "C15"
LEVEL = "proof"
FUNCTIONS = ['uxarray.grid.geometry._pad_closed_face_nodes',
    'uxarray.grid.grid.Grid.to_linecollection',
    'uxarray.grid.grid.Grid.to_polycollection']
STANDINS = ["geometry_export"]
ASSUMPTIONS = []
EXPLANATION = ""
LEVEL_TEXT = '_pad_closed_face_nodes proved (loop invariant): row = corners then copies of the first corner; to_linecollection / to_polycollection proved to depend only on their arguments from every cache state (polycollection returns a private deep copy); vertices, antimeridian handling, data alignment bounded'
LEVEL_NOTE = 'matplotlib/shapely/cartopy/antimeridian builders as uninterpreted functions; to_geodataframe cache not under contract (8 known findings)'
