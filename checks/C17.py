"""C17 Topological aggregations reduce over exactly each element's nodes"""
PROPERTY = "C17"
LEVEL = "proof"
FUNCTIONS = ['uxarray.core.aggregation._apply_node_to_edge_aggregation_numpy@dims=n_node',
    'uxarray.core.aggregation._apply_node_to_edge_aggregation_numpy@dims=time,n_node',
    'uxarray.core.aggregation._apply_node_to_face_aggregation_numpy@dims=n_node',
    'uxarray.core.aggregation._apply_node_to_face_aggregation_numpy@dims=time,n_node',
    'uxarray.core.aggregation._node_to_face_aggregation@dims=n_node',
    'uxarray.core.aggregation._node_to_face_aggregation@dims=time,n_node',
    'uxarray.core.aggregation._node_to_face_aggregation@dims=n_face',
    'uxarray.core.aggregation._node_to_edge_aggregation@dims=n_node',
    'uxarray.core.aggregation._node_to_edge_aggregation@dims=time,n_node',
    'uxarray.core.aggregation._node_to_edge_aggregation@dims=n_face',
    'uxarray.grid.connectivity.get_face_node_partitions@frame']
STANDINS = ["aggregations"]
ASSUMPTIONS = []
EXPLANATION = "partition / gather contracts + bounded stand-in over all ten reductions"
LEVEL_TEXT = 'both aggregation kernels proved for an arbitrary reduction (an uninterpreted function of the value sequence along the last axis), rank 1 and 2: _apply_node_to_edge_aggregation_numpy reduces exactly the two nodes of each edge; _apply_node_to_face_aggregation_numpy (loop invariant over the size partitions, ghost inverse permutation, staged scatter lemmas) gives every face the reduction over exactly its npf corner nodes - padding is never gathered; the public wrappers _node_to_face/_node_to_edge_aggregation proved to hand the result of the kernel on unchanged (no cast back to the source dtype), on the same grid, node dimension renamed; the partition function itself (argsort / unique / cumsum) is an assumed contract checked by the bounded stand-in, as are the ten numpy reductions, dtypes and the dispatch / error paths'
LEVEL_NOTE = 'aggregation function = function of the last-axis value sequence and its length; get_face_node_partitions assumed (DESIGN B.6 contract incl. the permutation inverse as a ghost result); index-array scatter model with distinct indices (obligation)'
