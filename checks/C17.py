"""C17 Topological aggregations reduce over exactly each element's nodes"""
PROPERTY = "C17"
LEVEL = "proof"
FUNCTIONS = ['uxarray.core.aggregation._apply_node_to_edge_aggregation_numpy@dims=n_node',
    'uxarray.core.aggregation._apply_node_to_edge_aggregation_numpy@dims=time,n_node']
STANDINS = ["aggregations"]
ASSUMPTIONS = []
EXPLANATION = "partition / gather contracts + bounded stand-in over all ten reductions"
