"""C17 Topological aggregations reduce over exactly each element's nodes"""
PROPERTY = "C17"
LEVEL = "proof"
FUNCTIONS = ['uxarray.core.aggregation._apply_node_to_edge_aggregation_numpy@dims=n_node',
    'uxarray.core.aggregation._apply_node_to_edge_aggregation_numpy@dims=time,n_node']
STANDINS = ["aggregations"]
ASSUMPTIONS = []
EXPLANATION = "partition / gather contracts + bounded stand-in over all ten reductions"
LEVEL_TEXT = '_apply_node_to_edge_aggregation_numpy proved for an arbitrary reduction (uninterpreted function of the value sequence along the last axis): every edge reduces exactly its two nodes, rank 1 and 2; node->face partitions and the ten numpy reductions bounded'
LEVEL_NOTE = 'aggregation function = function of the last-axis value sequence; get_face_node_partitions / face scatter not under contract'
