"""C17 Topological aggregations reduce over exactly each element's nodes"""
PROPERTY = "C17"
LEVEL = "proof"
FUNCTIONS = []
STANDINS = ["aggregations"]
ASSUMPTIONS = []
EXPLANATION = "partition / gather contracts + bounded stand-in over all ten reductions"
