"""C10"""
PROPERTY = "C10"
LEVEL = "proof"
FUNCTIONS = ['uxarray.core.dataarray.UxDataArray._copy',
    'uxarray.core.dataarray.UxDataArray._replace']
STANDINS = ["xarray_ops"]
ASSUMPTIONS = []
EXPLANATION = ""
