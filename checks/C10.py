"""C10"""
PROPERTY = "C10"
LEVEL = "proof"
FUNCTIONS = ['uxarray.core.dataarray.UxDataArray._copy',
    'uxarray.core.dataarray.UxDataArray._replace',
    'uxarray.core.dataarray.UxDataArray._slice_from_grid@dims=time,n_face',
    'uxarray.core.dataarray.UxDataArray._slice_from_grid@dims=n_face',
    'uxarray.core.dataarray.UxDataArray._slice_from_grid@dims=n_node',
    'uxarray.core.dataarray.UxDataArray._slice_from_grid@dims=lev,n_edge',
    'uxarray.core.dataarray.UxDataArray._slice_from_grid@dims=time',
    'uxarray.grid.grid.Grid.copy',
    'uxarray.core.dataarray.UxDataArray.isel@dims=time,n_face',
    'uxarray.core.dataarray.UxDataArray.isel@dims=n_node',
    'uxarray.core.dataarray.UxDataArray.isel@dims=lev,n_edge',
    'uxarray.grid.slice._slice_face_indices@source_is_itself_a_subset',
    'uxarray.grid.slice._slice_face_indices',
    'uxarray.remap.utils._remap_grid_parse@spherical,nodes',
    'uxarray.remap.utils._remap_grid_parse@spherical,face centers',
    'uxarray.remap.utils._remap_grid_parse@spherical,edge centers',
    'uxarray.remap.utils._remap_grid_parse@cartesian,nodes',
    'uxarray.remap.utils._remap_grid_parse@cartesian,face centers',
    'uxarray.remap.utils._remap_grid_parse@cartesian,edge centers']
STANDINS = ["xarray_ops"]
ASSUMPTIONS = []
EXPLANATION = ""
LEVEL_TEXT = "_copy and _replace hooks proved to re-attach the grid (deep copy: Grid.copy result) whatever xarray's base implementation returns; Grid.copy proved to construct a NEW Grid from a DEEP copy of the dataset (same format tag / dimension map); _slice_from_grid proved to attach the sliced grid; catalogue of ~110 xarray operations and depth-2 compositions bounded"
LEVEL_NOTE = 'that every xarray operation routes through these hooks is third-party behaviour (16 known findings show it does not with the installed xarray)'
