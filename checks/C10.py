"""C10"""
PROPERTY = "C10"
LEVEL = "proof"
FUNCTIONS = []
STANDINS = ["xarray_ops"]
ASSUMPTIONS = []
EXPLANATION = ""
