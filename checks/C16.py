"""C16 Edge distances, differences and gradients follow the edge's own neighbours"""
PROPERTY = "C16"
LEVEL = "proof"
FUNCTIONS = [
    "uxarray.grid.neighbors._construct_edge_node_distances",
    "uxarray.grid.neighbors._construct_edge_face_distances",
]
STANDINS = ["edge_quantities"]
ASSUMPTIONS = ["A-TRIG"]
EXPLANATION = "distance constructors pointwise"
LEVEL_TEXT = "_construct_edge_node_distances / _construct_edge_face_distances proved for all tables: great-circle law-of-cosines expression of the edge's own two nodes / two face centres, zero on boundary edges, index space and degree/radian ghosts; differences, gradients, normalisation bounded"
LEVEL_NOTE = 'A-REAL, A-TRIG; boolean-mask compression model; gradient helpers not under contract'
