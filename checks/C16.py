"""C16 Edge distances, differences and gradients follow the edge's own neighbours"""
PROPERTY = "C16"
LEVEL = "proof"
FUNCTIONS = [
    "uxarray.grid.neighbors._construct_edge_node_distances",
    "uxarray.grid.neighbors._construct_edge_face_distances",
]
STANDINS = ["edge_quantities"]
ASSUMPTIONS = ["A-TRIG"]
EXPLANATION = "distance constructors pointwise"
