"""C16 Edge distances, differences and gradients follow the edge's own neighbours"""
PROPERTY = "C16"
LEVEL = "proof"
FUNCTIONS = ['uxarray.grid.neighbors._construct_edge_node_distances',
    'uxarray.grid.neighbors._construct_edge_face_distances',
    'uxarray.core.gradient._calculate_edge_face_difference@rank1',
    'uxarray.core.gradient._calculate_edge_face_difference@rank2',
    'uxarray.core.gradient._calculate_edge_node_difference@rank1',
    'uxarray.core.gradient._calculate_edge_node_difference@rank2',
    'uxarray.core.gradient._calculate_grad_on_edge_from_faces@rank1',
    'uxarray.core.gradient._calculate_grad_on_edge_from_faces@rank2',
    'uxarray.core.gradient._calculate_edge_face_difference@rank1_int',
    'uxarray.core.gradient._calculate_edge_face_difference@rank2_int',
    'uxarray.core.gradient._calculate_edge_node_difference@rank1_int',
    'uxarray.core.gradient._calculate_edge_node_difference@rank2_int',
    'uxarray.core.gradient._calculate_grad_on_edge_from_faces@rank1_int',
    'uxarray.core.gradient._calculate_grad_on_edge_from_faces@rank2_int',
    'uxarray.core.dataarray.UxDataArray.gradient@dims=n_face',
    'uxarray.core.dataarray.UxDataArray.gradient@dims=time,n_face',
    'uxarray.core.dataarray.UxDataArray.gradient@dims=n_node',
    'uxarray.core.dataarray.UxDataArray.difference@dims=n_face;edge',
    'uxarray.core.dataarray.UxDataArray.difference@dims=time,n_face;edge',
    'uxarray.core.dataarray.UxDataArray.difference@dims=n_node;edge',
    'uxarray.core.dataarray.UxDataArray.difference@dims=lev,n_node;edge',
    'uxarray.core.dataarray.UxDataArray.difference@dims=n_face;face',
    'uxarray.core.dataarray.UxDataArray.difference@dims=n_node;node',
    'uxarray.core.dataarray.UxDataArray.difference@dims=n_face;node',
    'uxarray.core.dataarray.UxDataArray.difference@dims=n_node;face',
    'uxarray.core.dataarray.UxDataArray.difference@dims=n_face;bogus',
    'uxarray.grid.slice._slice_face_indices',
    'uxarray.grid.neighbors._populate_edge_node_distances',
    'uxarray.grid.neighbors._populate_edge_face_distances']
STANDINS = ["edge_quantities", "consumers"]
ASSUMPTIONS = ["A-TRIG"]
EXPLANATION = "distance constructors pointwise"
LEVEL_TEXT = '_slice_face_indices proved to drop edge_face_distances (recomputed on the subset, where boundary edges differ) while keeping edge_node_distances; UxDataArray.gradient / difference proved in dataflow form: the kernel of the matching element kind gets this array and the edge tables / distances of ITS OWN grid, the result lives on the edge dimension of the same grid, every unsupported (kind, destination) pair is rejected; _construct_edge_node_distances / _construct_edge_face_distances proved for all tables (law-of-cosines expression of the edge\'s own two nodes / two face centres, zero on boundary edges, index-space and degree/radian ghosts); _calculate_edge_face_difference, _calculate_edge_node_difference and the un-normalised _calculate_grad_on_edge_from_faces proved for rank 1 and 2 (absolute difference of the two neighbours, divided by the centre distance, zero on boundary edges, inputs incl. the grid\'s distance table not written); normalisation, wrappers and source-supplied distances bounded'
LEVEL_NOTE = 'A-REAL, A-TRIG; boolean-mask compression model; gradient helpers not under contract'
