"""C03 Incidence tables are exact transposes of one another"""
PROPERTY = "C03"
LEVEL = "proof"
FUNCTIONS = ['uxarray.grid.connectivity._build_edge_face_connectivity',
    'uxarray.grid.geometry._construct_hole_edge_indices',
    'uxarray.io._mpas._parse_face_faces@primal',
    'uxarray.io._mpas._parse_node_faces@primal',
    'uxarray.io._mpas._parse_node_faces@dual']
STANDINS = ["incidence"]
ASSUMPTIONS = []
EXPLANATION = "builders under contract + bounded stand-in"
LEVEL_TEXT = "_build_edge_face_connectivity proved with loop invariants for every manifold face-edge table (ghost fa/fb/pos), incl. 'f listed iff e is an edge of f' and boundary = (face, FILL); _construct_hole_edge_indices proved (exactly the one-face edges, increasing); node_face / face_face builders bounded"
LEVEL_NOTE = "manifoldness is the property's precondition (ghost functions); np.where model; finite-scope instances only refute"
