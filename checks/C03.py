"""C03 Incidence tables are exact transposes of one another"""
PROPERTY = "C03"
LEVEL = "proof"
FUNCTIONS = ['uxarray.grid.connectivity._build_edge_face_connectivity',
    'uxarray.grid.geometry._construct_hole_edge_indices']
STANDINS = ["incidence"]
ASSUMPTIONS = []
EXPLANATION = "builders under contract + bounded stand-in"
