"""C03 Incidence tables are exact transposes of one another"""
PROPERTY = "C03"
LEVEL = "proof"
FUNCTIONS = []
STANDINS = ["incidence"]
ASSUMPTIONS = []
EXPLANATION = "builders under contract + bounded stand-in"
