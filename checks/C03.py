"""C03 Incidence tables are exact transposes of one another"""
PROPERTY = "C03"
LEVEL = "proof"
FUNCTIONS = ['uxarray.grid.connectivity._build_edge_face_connectivity',
    'uxarray.grid.geometry._construct_hole_edge_indices',
    'uxarray.io._mpas._parse_face_faces@primal',
    'uxarray.io._mpas._parse_node_faces@primal',
    'uxarray.io._mpas._parse_node_faces@dual',
    'uxarray.grid.connectivity._build_node_faces_connectivity',
    'uxarray.io._mpas._parse_edge_faces@primal',
    'uxarray.io._mpas._parse_edge_faces@dual',
    'uxarray.io._mpas._parse_face_edges@primal',
    'uxarray.io._mpas._parse_face_edges@dual',
    'uxarray.io._mpas._parse_edge_nodes@primal',
    'uxarray.io._mpas._parse_edge_nodes@dual',
    'uxarray.grid.connectivity._populate_edge_face_connectivity',
    'uxarray.grid.connectivity._populate_node_face_connectivity',
    'uxarray.grid.connectivity._populate_face_face_connectivity',
    'uxarray.grid.connectivity._build_face_face_connectivity',
    'uxarray.core.gradient._calculate_edge_face_difference@rank1',
    'uxarray.core.gradient._calculate_edge_face_difference@rank2',
    'uxarray.core.gradient._calculate_grad_on_edge_from_faces@rank1',
    'uxarray.core.gradient._calculate_grad_on_edge_from_faces@rank2',
    'uxarray.grid.slice._slice_face_indices']
STANDINS = ["incidence", "consumers"]
ASSUMPTIONS = []
EXPLANATION = "builders under contract + bounded stand-in"
LEVEL_TEXT = '_slice_face_indices proved to drop every incidence table of the source grid (rebuilt on the subset); the edge kernels of difference / gradient proved not to write the edge-face table of the grid they are handed (frame obligations); _build_edge_face_connectivity proved with loop invariants for every manifold face-edge table (ghost fa/fb/pos): f listed in row e iff e is an edge of f, boundary = (face, FILL); _build_node_faces_connectivity proved (four loop invariants over the dict-of-lists state): f listed in row n iff n is a corner of f, padding only at the end, standard dtype; _construct_hole_edge_indices proved (exactly the one-face edges, increasing); MPAS cellsOnCell / cellsOnVertex / verticesOnCell parsers proved (source-supplied tables re-indexed, padding behind nEdgesOnCell ignored); _build_face_face_connectivity proved (ghost witness table + recursive counting function): positions of row f are in bijection with the interior edges of f, i.e. the face across each shared edge exactly once per edge, padding only at the end; _populate_edge_face / node_face / face_face plumbing proved in dataflow form; slicing bounded'
LEVEL_NOTE = "manifoldness is the property's precondition (ghost functions); np.where model; finite-scope instances only refute"
