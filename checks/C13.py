"""C13 Face latitude-longitude bounds enclose the face and are tight"""
PROPERTY = "C13"
LEVEL = "proof"
FUNCTIONS = [
    {"q": "uxarray.grid.geometry._get_latlonbox_width", "standin": {}},
    {"q": "uxarray.grid.geometry._insert_pt_in_latlonbox", "standin": {}},
]
STANDINS = ["bounds"]
ASSUMPTIONS = [
    "A-TRIG: sin/cos/asin/acos/atan2/sqrt/fmod are uninterpreted with the algebraic axioms listed in trusted_base",
]
EXPLANATION = ("contracts on the box primitives and the per-edge loops of _populate_face_latlon_bound; "
               "_pole_point_inside_polygon and the padding gymnastics of _get_*_face_edge_nodes are bounded stand-ins")
LEVEL_TEXT = '_get_latlonbox_width and _insert_pt_in_latlonbox proved over the reals (enclosure of point and old box, periodic longitude, narrower extension chosen, pole markers); the per-edge loops, arc extremes and pole predicate are bounded (dense arc sampling on generated faces)'
LEVEL_NOTE = 'A-REAL, fmod axioms; extreme_gca_latitude and _pole_point_inside_polygon not under contract'
