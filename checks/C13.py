"""C13 Face latitude-longitude bounds enclose the face and are tight"""
PROPERTY = "C13"
LEVEL = "proof"
FUNCTIONS = [
    {"q": "uxarray.grid.geometry._get_latlonbox_width", "standin": {}},
    {"q": "uxarray.grid.geometry._insert_pt_in_latlonbox", "standin": {}},
    "uxarray.grid.arcs.extreme_gca_latitude@max",
    "uxarray.grid.arcs.extreme_gca_latitude@min",
]
STANDINS = ["bounds"]
ASSUMPTIONS = [
    "A-TRIG: sin/cos/asin/acos/atan2/sqrt/fmod are uninterpreted with the algebraic axioms listed in trusted_base",
]
EXPLANATION = ("contracts on the box primitives and the per-edge loops of _populate_face_latlon_bound; "
               "_pole_point_inside_polygon and the padding gymnastics of _get_*_face_edge_nodes are bounded stand-ins")
LEVEL_TEXT = '_get_latlonbox_width and _insert_pt_in_latlonbox proved over the reals (enclosure of point and old box, periodic longitude, narrower extension chosen, pole markers); extreme_gca_latitude proved (real arithmetic, unit end points, staged polynomial lemmas in clean contexts): the interior candidate the function evaluates IS the stationary point of the latitude along the arc (d/dt [p_z/|p|] = 0 at p = (1-d) n1 + d n2), it is never the origin, and the result is never on the wrong side of either end point; that the stationary point is the extremum, the per-edge loops and the pole predicate are bounded (dense arc sampling on generated faces)'
LEVEL_NOTE = 'A-REAL, fmod axioms; _pole_point_inside_polygon not under contract; lemma obligations are generalised to pure polynomial arithmetic (every non-polynomial subterm becomes a variable) and proved from explicitly listed premises, each of which is itself an obligation'
