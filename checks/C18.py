"""C18"""
PROPERTY = "C18"
LEVEL = "proof"
FUNCTIONS = ['uxarray.grid.dual._order_nodes',
    'uxarray.grid.dual.construct_faces',
    'uxarray.grid.dual.construct_dual',
    'uxarray.grid.grid.Grid.get_dual',
    'uxarray.core.dataarray.UxDataArray.get_dual@dims=n_node',
    'uxarray.core.dataarray.UxDataArray.get_dual@dims=time,n_face',
    'uxarray.core.dataarray.UxDataArray.get_dual@dims=n_face,lev']
STANDINS = ["dual"]
ASSUMPTIONS = []
EXPLANATION = ""
LEVEL_TEXT = 'Grid.get_dual / UxDataArray.get_dual proved in dataflow form (dual built from the face centres and the construct_dual faces of THIS grid; values and name kept, face / node dimensions exchanged, on that dual grid); _order_nodes proved with three loop invariants: the ordered ring keeps the starting corner, every entry is one of the faces meeting at the node or padding (no invented corner), padding beyond the valence; every angle the function sorts by is the geometric angle of its corner around the node measured from the first corner (reflected when the corner lies on the positive side of node_0 x node_central), and the corners that are placed appear in STRICTLY INCREASING angle (ghost pick array; the angle is a definitional spec function unfolded only where it is computed); construct_dual proved in dataflow form (construct_faces is called with the face centres, node positions and node_face table of THIS grid and the per-row count of real entries as valence); construct_faces proved (loop invariant with a counting function for the row rank): one dual face per primal node of valence >= 3 in node order, row rank(i) starts at the first face of node i, holds only faces meeting at node i and is padding beyond its valence (uses the _order_nodes contract); that no corner is dropped (distinct angles) and consecutive faces share an edge, and the data carry-over are bounded (18 closed + ~19 partial meshes against an independent dual)'
LEVEL_NOTE = 'A-REAL/A-TRIG for the angle computation (no obligation depends on the angle values); `is not INT_FILL_VALUE` read with CPython semantics; ring completeness needs distinct angles and is not under contract; A-REAL / A-TRIG (acos, sqrt uninterpreted with axioms)'
