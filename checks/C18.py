"""C18"""
PROPERTY = "C18"
LEVEL = "proof"
FUNCTIONS = []
STANDINS = ["dual"]
ASSUMPTIONS = []
EXPLANATION = ""
LEVEL_TEXT = 'bounded stand-in only: dual of 18 closed and ~19 partial meshes against an independent dual construction (corner sets, ccw order, shared edges, padding, data carry-over, JIT vs py_func)'
LEVEL_NOTE = 'no function under contract yet'
