"""C18"""
PROPERTY = "C18"
LEVEL = "proof"
FUNCTIONS = ['uxarray.grid.dual._order_nodes']
STANDINS = ["dual"]
ASSUMPTIONS = []
EXPLANATION = ""
LEVEL_TEXT = '_order_nodes proved with three loop invariants: the ordered ring keeps the starting corner, every entry is one of the faces meeting at the node or padding (no invented corner), padding beyond the valence; that the ring is a complete counter-clockwise permutation with consecutive faces sharing an edge, construct_faces bookkeeping and the data carry-over are bounded (18 closed + ~19 partial meshes against an independent dual)'
LEVEL_NOTE = 'A-REAL/A-TRIG for the angle computation (no obligation depends on the angle values); `is not INT_FILL_VALUE` read with CPython semantics; permutation completeness needs distinct angles and is not under contract'
