"""C11"""
PROPERTY = "C11"
LEVEL = "proof"
FUNCTIONS = []
STANDINS = ["neighbours"]
ASSUMPTIONS = []
EXPLANATION = ""
