"""C11"""
PROPERTY = "C11"
LEVEL = "proof"
FUNCTIONS = ['uxarray.grid.grid.Grid.get_ball_tree',
    'uxarray.grid.grid.Grid.get_kd_tree',
    'uxarray.grid.neighbors.BallTree.coordinates.setter@value=nodes',
    'uxarray.grid.neighbors.BallTree.coordinates.setter@value=face centers',
    'uxarray.grid.neighbors.BallTree.coordinates.setter@value=edge centers',
    'uxarray.grid.neighbors.BallTree.coordinates.setter@value=bogus',
    'uxarray.grid.neighbors.KDTree.coordinates.setter@value=nodes',
    'uxarray.grid.neighbors.KDTree.coordinates.setter@value=face centers',
    'uxarray.grid.neighbors.KDTree.coordinates.setter@value=edge centers',
    'uxarray.grid.neighbors.KDTree.coordinates.setter@value=bogus']
STANDINS = ["neighbours"]
ASSUMPTIONS = []
EXPLANATION = ""
LEVEL_TEXT = 'get_ball_tree / get_kd_tree proved to hand back a tree whose element kind, coordinate system and metric are those of THIS call from every cache state; agreement with brute force bounded (sklearn assumed correct)'
LEVEL_NOTE = 'tree constructors as records of their arguments; tree.coordinates setter modelled; sklearn internals assumed'
