"""C11"""
PROPERTY = "C11"
LEVEL = "proof"
FUNCTIONS = ['uxarray.grid.grid.Grid.get_ball_tree',
    'uxarray.grid.grid.Grid.get_kd_tree']
STANDINS = ["neighbours"]
ASSUMPTIONS = []
EXPLANATION = ""
