"""C11"""
PROPERTY = "C11"
LEVEL = "proof"
FUNCTIONS = ['uxarray.grid.grid.Grid.get_ball_tree',
    'uxarray.grid.grid.Grid.get_kd_tree',
    'uxarray.grid.neighbors.BallTree.coordinates.setter@value=nodes',
    'uxarray.grid.neighbors.BallTree.coordinates.setter@value=face centers',
    'uxarray.grid.neighbors.BallTree.coordinates.setter@value=edge centers',
    'uxarray.grid.neighbors.BallTree.coordinates.setter@value=bogus',
    'uxarray.grid.neighbors.KDTree.coordinates.setter@value=nodes',
    'uxarray.grid.neighbors.KDTree.coordinates.setter@value=face centers',
    'uxarray.grid.neighbors.KDTree.coordinates.setter@value=edge centers',
    'uxarray.grid.neighbors.KDTree.coordinates.setter@value=bogus',
    'uxarray.grid.neighbors.BallTree.query@cartesian',
    'uxarray.grid.neighbors.BallTree.query@spherical',
    'uxarray.grid.neighbors.KDTree.query@cartesian',
    'uxarray.grid.neighbors.KDTree.query@spherical',
    'uxarray.grid.neighbors.BallTree.query_radius@cartesian,count_only',
    'uxarray.grid.neighbors.BallTree.query_radius@spherical,count_only',
    'uxarray.grid.neighbors.KDTree.query_radius@cartesian,count_only',
    'uxarray.grid.neighbors.KDTree.query_radius@spherical,count_only',
    'uxarray.grid.neighbors._prepare_xy_for_query@haversine,rad,rank2',
    'uxarray.grid.neighbors._prepare_xy_for_query@haversine,rad,rank1',
    'uxarray.grid.neighbors._prepare_xy_for_query@haversine,deg,rank2',
    'uxarray.grid.neighbors._prepare_xy_for_query@haversine,deg,rank1',
    'uxarray.grid.neighbors._prepare_xy_for_query@minkowski,rad,rank2',
    'uxarray.grid.neighbors._prepare_xy_for_query@minkowski,rad,rank1',
    'uxarray.grid.neighbors._prepare_xy_for_query@minkowski,deg,rank2',
    'uxarray.grid.neighbors._prepare_xy_for_query@minkowski,deg,rank1',
    'uxarray.grid.neighbors.BallTree._build_from_nodes@built;spherical',
    'uxarray.grid.neighbors.BallTree._build_from_nodes@built;cartesian',
    'uxarray.grid.neighbors.BallTree._build_from_face_centers@built;spherical',
    'uxarray.grid.neighbors.BallTree._build_from_face_centers@built;cartesian',
    'uxarray.grid.neighbors.BallTree._build_from_edge_centers@built;spherical',
    'uxarray.grid.neighbors.BallTree._build_from_edge_centers@built;cartesian',
    'uxarray.grid.neighbors.KDTree._build_from_nodes@built;spherical',
    'uxarray.grid.neighbors.KDTree._build_from_nodes@built;cartesian',
    'uxarray.grid.neighbors.KDTree._build_from_face_centers@built;spherical',
    'uxarray.grid.neighbors.KDTree._build_from_face_centers@built;cartesian',
    'uxarray.grid.neighbors.KDTree._build_from_edge_centers@built;spherical',
    'uxarray.grid.neighbors.KDTree._build_from_edge_centers@built;cartesian']
STANDINS = ["neighbours"]
ASSUMPTIONS = []
EXPLANATION = ""
LEVEL_TEXT = 'the six tree builders of both classes proved in dataflow form (the sklearn tree of an element kind is built from the (latitude, longitude) columns in radians, or the (x, y, z) columns, of THAT kind of this grid, with this metric, no cast to the stored dtype); _prepare_xy_for_query proved for both metrics, degrees / radians, single and batched points: the sklearn tree is asked with the points supplied, (lat, lon) for haversine and (lon, lat) otherwise, in radians, and the array of the caller is not written (np.flip / np.expand_dims modelled as views); get_ball_tree / get_kd_tree proved to hand back a tree whose element kind, coordinate system and metric are those of THIS call from every cache state; the coordinates setter proved to select / rebuild the tree of the requested kind; query (both classes, both coordinate systems) proved in dataflow form: the wrapped sklearn query gets the prepared points and the flags of the caller (sort_results in particular) on the tree of the element kind in force, indices come back unchanged (standard dtype, squeezed for one point), spherical distances in degrees unless radians were asked for; query_radius(count_only) proved to pass the radius in the unit the tree was built in (BallTree: degrees as documented; KDTree: unit of the query points); agreement with brute force bounded (sklearn assumed correct)'
LEVEL_NOTE = 'tree constructors as records of their arguments; tree.coordinates setter modelled; sklearn internals assumed'
