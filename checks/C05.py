"""C05 Face areas are the spherical-polygon areas, invariantly"""
PROPERTY = "C05"
LEVEL = "proof"
FUNCTIONS = ['uxarray.grid.grid.Grid.face_areas',
    'uxarray.grid.grid.Grid.compute_face_areas']
STANDINS = ["areas"]
ASSUMPTIONS = []
EXPLANATION = "quadrature tables / Jacobian contracts + bounded stand-in against the exact spherical excess"
LEVEL_TEXT = 'Grid.face_areas proved to cache exactly the default-rule computation from every cache state (history contract over compute_face_areas as an uninterpreted spec function); accuracy bands, invariances, convergence and the quadrature tables are bounded (generated convex faces against the exact spherical excess)'
LEVEL_NOTE = 'compute_face_areas / get_all_face_area_from_coords assumed (uninterpreted); accuracy bands are not decidable by contracts (approximation theory) - measured only'
