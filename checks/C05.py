"""C05 Face areas are the spherical-polygon areas, invariantly"""
PROPERTY = "C05"
LEVEL = "proof"
FUNCTIONS = ['uxarray.grid.grid.Grid.face_areas']
STANDINS = ["areas"]
ASSUMPTIONS = []
EXPLANATION = "quadrature tables / Jacobian contracts + bounded stand-in against the exact spherical excess"
