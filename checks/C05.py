"""C05 Face areas are the spherical-polygon areas, invariantly"""
PROPERTY = "C05"
LEVEL = "proof"
FUNCTIONS = ['uxarray.grid.grid.Grid.face_areas',
    'uxarray.grid.grid.Grid.compute_face_areas',
    'uxarray.grid.area.get_gauss_quadratureDG@n=1',
    'uxarray.grid.area.get_gauss_quadratureDG@n=2',
    'uxarray.grid.area.get_gauss_quadratureDG@n=3',
    'uxarray.grid.area.get_gauss_quadratureDG@n=4',
    'uxarray.grid.area.get_gauss_quadratureDG@n=5',
    'uxarray.grid.area.get_gauss_quadratureDG@n=6',
    'uxarray.grid.area.get_gauss_quadratureDG@n=7',
    'uxarray.grid.area.get_gauss_quadratureDG@n=8',
    'uxarray.grid.area.get_gauss_quadratureDG@n=9',
    'uxarray.grid.area.get_gauss_quadratureDG@n=10',
    'uxarray.grid.area.get_tri_quadratureDG@order=1',
    'uxarray.grid.area.get_tri_quadratureDG@order=4',
    'uxarray.grid.area.get_tri_quadratureDG@order=8',
    'uxarray.grid.area.get_tri_quadratureDG@order=10',
    'uxarray.grid.area.get_tri_quadratureDG@order=12']
STANDINS = ["areas"]
ASSUMPTIONS = []
EXPLANATION = "quadrature tables / Jacobian contracts + bounded stand-in against the exact spherical excess"
LEVEL_TEXT = 'all 15 quadrature tables proved valid in exact rational arithmetic on the literals as executed (incl. the scaling loop): positive weights summing to 1, points in the reference domain, exactness for every monomial up to the rule\'s degree (Gauss n=1..10: degree 2n-1, n=9 is a Lobatto rule of degree 15; triangular orders 1,4,8,10,12), so the degree never decreases with the order; Grid.face_areas proved to cache exactly the default-rule computation from every cache state and compute_face_areas proved (syntactically) to write no grid state; accuracy bands, invariances (start corner, numbering, rotation, input coordinates), additivity and 4 pi closure are bounded against the exact spherical excess'
LEVEL_NOTE = 'float literals read as their decimal value (A-REAL), tolerance 1e-12 / 1e-10 on the moments; calculate_face_area / the spherical Jacobian not under contract; the accuracy bands are approximation theory and only measured'
