"""C02 Derived edges are exactly the boundary segments of the faces"""
PROPERTY = "C02"
LEVEL = "proof"
FUNCTIONS = [{'q': 'uxarray.grid.connectivity.close_face_nodes',
    'standin': {}}, 'uxarray.grid.connectivity._build_n_nodes_per_face',
    'uxarray.grid.connectivity._build_face_edge_connectivity',
    'uxarray.io._mpas._parse_face_edges@primal',
    'uxarray.io._mpas._parse_face_edges@dual',
    'uxarray.io._mpas._parse_edge_nodes@primal',
    'uxarray.io._mpas._parse_edge_nodes@dual',
    'uxarray.grid.connectivity._populate_edge_node_connectivity',
    'uxarray.grid.connectivity._populate_face_edge_connectivity',
    'uxarray.grid.connectivity._populate_n_nodes_per_face',
    'uxarray.grid.slice._slice_face_indices',
    'uxarray.grid.connectivity.get_face_node_partitions@frame']
STANDINS = ["edges", "consumers"]
ASSUMPTIONS = []
EXPLANATION = "builders under contract + bounded stand-in (catalogue meshes, exhaustive small tables, access orders)"
LEVEL_TEXT = '_slice_face_indices proved to carry over exactly the edges of the kept faces (a function of their face_edge rows only) and to drop face_edge_connectivity; close_face_nodes (closing pair, padding), _build_n_nodes_per_face and _build_face_edge_connectivity proved for all standard-form tables of any size incl. the memory-layout obligation of np.put on a ravel() view; the _populate_* plumbing proved in dataflow form (face_edge indices number the rows of the edge table the grid REPORTS - derived with its own inverse indices, or source-supplied and left untouched; module-level attribute templates never stored into; nothing else in the dataset touched); _build_edge_node_connectivity (np.unique pipeline) and the row matching for supplied tables are bounded: exhaustive small tables + catalogue meshes, 4 access orders, Euler on closed meshes'
LEVEL_NOTE = 'library models: ones/full, slice stores, argmax(bool rows), arange, put on ravel view (C-contiguity ghost), reshape; np.unique/isin/searchsorted chain NOT under contract'
