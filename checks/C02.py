"""C02 Derived edges are exactly the boundary segments of the faces"""
PROPERTY = "C02"
LEVEL = "proof"
FUNCTIONS = [{'q': 'uxarray.grid.connectivity.close_face_nodes',
    'standin': {}}, 'uxarray.grid.connectivity._build_n_nodes_per_face',
    'uxarray.grid.connectivity._build_face_edge_connectivity']
STANDINS = ["edges"]
ASSUMPTIONS = []
EXPLANATION = "builders under contract + bounded stand-in (catalogue meshes, exhaustive small tables, access orders)"
