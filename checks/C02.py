"""C02 Derived edges are exactly the boundary segments of the faces"""
PROPERTY = "C02"
LEVEL = "proof"
FUNCTIONS = []
STANDINS = ["edges"]
ASSUMPTIONS = []
EXPLANATION = "builders under contract + bounded stand-in (catalogue meshes, exhaustive small tables, access orders)"
