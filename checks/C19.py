"""C19"""
PROPERTY = "C19"
LEVEL = "proof"
FUNCTIONS = ['uxarray.grid.connectivity._replace_fill_values',
    'uxarray.io._topology._process_connectivity',
    'uxarray.io._mpas._parse_face_nodes@primal',
    'uxarray.io._mpas._parse_face_nodes@dual',
    'uxarray.grid.coordinates._set_desired_longitude_range',
    'uxarray.grid.grid.Grid.to_polycollection',
    'uxarray.grid.grid.Grid.copy',
    'uxarray.grid.coordinates._xyz_to_lonlat_rad@arrays',
    'uxarray.grid.coordinates._xyz_to_lonlat_deg@arrays',
    'uxarray.grid.coordinates._normalize_xyz@arrays',
    'uxarray.grid.coordinates._lonlat_rad_to_xyz@arrays',
    'uxarray.io._esmf._read_esmf',
    'uxarray.io._ugrid._standardize_connectivity',
    'uxarray.grid.grid.Grid.__init__@class_state']
STANDINS = ["sharing", "explicit_spec"]
ASSUMPTIONS = []
EXPLANATION = ""
LEVEL_TEXT = "_replace_fill_values and _process_connectivity proved with ownership frames: the caller's array is never stored into and the result is fresh storage; _set_desired_longitude_range, the coordinate conversions called with arrays, the ESMF reader and the MPAS parsers proved never to write into caller-owned buffers; Grid.copy proved to deep-copy the dataset into a new Grid; to_polycollection proved to return an object that is not the cached one; other exports / constructors bounded (mutate-and-compare)"
LEVEL_NOTE = 'ownership ghost on arrays (caller/fresh); xarray copy semantics assumed'
