"""C19"""
PROPERTY = "C19"
LEVEL = "proof"
FUNCTIONS = ['uxarray.grid.connectivity._replace_fill_values',
    'uxarray.io._topology._process_connectivity']
STANDINS = ["sharing"]
ASSUMPTIONS = []
EXPLANATION = ""
