"""C08"""
PROPERTY = "C08"
LEVEL = "proof"
FUNCTIONS = ['uxarray.grid.grid.Grid.face_areas',
    'uxarray.grid.grid.Grid.face_jacobian',
    'uxarray.grid.grid.Grid.get_ball_tree',
    'uxarray.grid.grid.Grid.get_kd_tree',
    'uxarray.grid.grid.Grid.to_linecollection',
    'uxarray.grid.grid.Grid.to_polycollection',
    'uxarray.io._ugrid._encode_ugrid',
    'uxarray.grid.neighbors.BallTree.coordinates.setter@value=nodes',
    'uxarray.grid.neighbors.BallTree.coordinates.setter@value=face centers',
    'uxarray.grid.neighbors.BallTree.coordinates.setter@value=edge centers',
    'uxarray.grid.neighbors.BallTree.coordinates.setter@value=bogus',
    'uxarray.grid.neighbors.KDTree.coordinates.setter@value=nodes',
    'uxarray.grid.neighbors.KDTree.coordinates.setter@value=face centers',
    'uxarray.grid.neighbors.KDTree.coordinates.setter@value=edge centers',
    'uxarray.grid.neighbors.KDTree.coordinates.setter@value=bogus',
    'uxarray.grid.grid.Grid.compute_face_areas',
    'uxarray.grid.grid.Grid.to_geodataframe',
    'uxarray.grid.connectivity._populate_edge_node_connectivity',
    'uxarray.grid.connectivity._populate_face_edge_connectivity',
    'uxarray.grid.connectivity._populate_n_nodes_per_face',
    'uxarray.grid.connectivity._populate_edge_face_connectivity',
    'uxarray.grid.connectivity._populate_node_face_connectivity',
    'uxarray.grid.connectivity._populate_face_face_connectivity',
    'uxarray.grid.coordinates._populate_node_latlon',
    'uxarray.grid.coordinates._populate_node_xyz',
    'uxarray.grid.grid.Grid.node_lon',
    'uxarray.grid.grid.Grid.node_lat',
    'uxarray.grid.coordinates._populate_face_centroids',
    'uxarray.grid.coordinates._populate_edge_centroids',
    'uxarray.grid.grid.Grid.face_lon',
    'uxarray.grid.grid.Grid.face_lat',
    'uxarray.grid.grid.Grid.edge_lon',
    'uxarray.grid.grid.Grid.edge_lat',
    'uxarray.grid.coordinates._xyz_to_lonlat_rad@arrays',
    'uxarray.grid.coordinates._xyz_to_lonlat_deg@arrays',
    'uxarray.grid.coordinates._normalize_xyz@arrays',
    'uxarray.grid.coordinates._lonlat_rad_to_xyz@arrays',
    'uxarray.grid.grid.Grid.__init__@class_state']
STANDINS = ["histories"]
ASSUMPTIONS = []
EXPLANATION = ""
LEVEL_TEXT = 'history contracts proved for face_areas, face_jacobian, get_ball_tree, get_kd_tree, to_linecollection, to_polycollection: from every admissible cache state the call returns what a fresh grid returns for the same arguments and re-establishes the cache invariant; to_geodataframe proved the same way with the cache-miss value shown to be a function of exactly the cache key (2-safety over all pairs of paths); the lazy-property plumbing (_populate_* for connectivity and coordinates, node/face/edge lon-lat properties) proved to store only its own variables, computed from the tables of this grid, and to leave module constants and caller-owned buffers alone; all other operations: bounded operation-sequence sweep (93-operation alphabet, sequences <= 2-3, module constants snapshot, JIT on/off subprocess)'
LEVEL_NOTE = 'builders / sklearn / matplotlib as uninterpreted functions of (source, arguments); the induction over the call history is the meta-argument; abstract (dataflow) mode for the plumbing: library calls / summarised builders are deterministic pure functions; Grid dimension sizes stable'
