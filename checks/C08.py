"""C08"""
PROPERTY = "C08"
LEVEL = "proof"
FUNCTIONS = []
STANDINS = ["histories"]
ASSUMPTIONS = []
EXPLANATION = ""
