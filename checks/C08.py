"""C08"""
PROPERTY = "C08"
LEVEL = "proof"
FUNCTIONS = ['uxarray.grid.grid.Grid.face_areas',
    'uxarray.grid.grid.Grid.face_jacobian',
    'uxarray.grid.grid.Grid.get_ball_tree',
    'uxarray.grid.grid.Grid.get_kd_tree',
    'uxarray.grid.grid.Grid.to_linecollection',
    'uxarray.grid.grid.Grid.to_polycollection']
STANDINS = ["histories"]
ASSUMPTIONS = []
EXPLANATION = ""
