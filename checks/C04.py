"""C04 Spherical and Cartesian coordinates always denote the same points"""
PROPERTY = "C04"
LEVEL = "proof"
_C = "uxarray.grid.coordinates."
FUNCTIONS = [
    {"q": _C + "_lonlat_rad_to_xyz", "standin": {}},
    {"q": _C + "_normalize_xyz", "standin": {}},
    {"q": _C + "_normalize_xyz_scalar", "standin": {}},
    {"q": _C + "_xyz_to_lonlat_rad", "standin": {}},
    {"q": _C + "_xyz_to_lonlat_rad_scalar", "standin": {}},
    {"q": _C + "_xyz_to_lonlat_rad_no_norm", "standin": {}},
    {"q": _C + "_xyz_to_lonlat_deg", "standin": {}},
    _C + "_set_desired_longitude_range",
    _C + "_populate_node_latlon",
    _C + "_populate_node_xyz",
    "uxarray.grid.grid.Grid.node_lon",
    "uxarray.grid.grid.Grid.node_lat",
    _C + "_populate_face_centroids",
    _C + "_populate_edge_centroids",
    _C + "_populate_face_centerpoints",
    _C + "_construct_face_centroids",
    _C + "_construct_edge_centroids",
    "uxarray.grid.grid.Grid.face_lon",
    "uxarray.grid.grid.Grid.face_lat",
    "uxarray.grid.grid.Grid.edge_lon",
    "uxarray.grid.grid.Grid.edge_lat",
    _C + "_xyz_to_lonlat_rad@arrays",
    _C + "_xyz_to_lonlat_deg@arrays",
    _C + "_normalize_xyz@arrays",
    _C + "_lonlat_rad_to_xyz@arrays",
]
STANDINS = ["coords", "consumers"]
ASSUMPTIONS = [
    "A-TRIG: sin/cos/asin/acos/atan2/sqrt/fmod are uninterpreted with the algebraic axioms listed in trusted_base",
    "vectorised numpy conversion functions are verified for a generic element (parameters typed real): they use elementwise operations only; any indexing/reduction would make them UNDECIDED",
]
EXPLANATION = "pointwise real-arithmetic contracts on every conversion function"
LEVEL_TEXT = '_construct_face_centroids / _construct_edge_centroids proved: the centre of an element is normalise(mean of the Cartesian coordinates of exactly its own corners) (mean over the first n_nodes_per_face[f] entries of the row; edge: chord midpoint), loop invariant for any mesh; the populate_* plumbing and the lazy lon/lat properties proved in dataflow form (which conversion is applied to which array of THIS grid, three provenance branches, wrap of constructed longitudes whichever property is read first, nothing else touched); every conversion function (_lonlat_rad_to_xyz, both _normalize_xyz, _xyz_to_lonlat_rad/_scalar/_no_norm/_deg) proved pointwise over the reals: unit length, direction preserved, pole snap, ranges; populate/provenance/access-order behaviour is a bounded stand-in (103 provenance scenarios x access orders)'
LEVEL_NOTE = 'A-REAL (float64 as reals), A-TRIG axioms for sin/cos/asin/atan2/sqrt/fmod; vectorised functions verified for a generic element'
