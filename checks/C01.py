"""C01 Readers decode every supported format to the faces the source describes"""
PROPERTY = "C01"
LEVEL = "proof"
FUNCTIONS = ['uxarray.io._mpas._replace_padding',
    'uxarray.io._mpas._replace_zeros',
    'uxarray.io._mpas._to_zero_index',
    'uxarray.grid.connectivity._replace_fill_values',
    'uxarray.io._topology._process_connectivity',
    'uxarray.io._mpas._parse_face_faces@primal',
    'uxarray.io._mpas._parse_node_faces@primal',
    'uxarray.io._mpas._parse_node_faces@dual',
    'uxarray.io._mpas._parse_face_nodes@primal',
    'uxarray.io._mpas._parse_face_nodes@dual',
    'uxarray.io._mpas._parse_face_edges@primal',
    'uxarray.io._mpas._parse_face_edges@dual',
    'uxarray.io._mpas._parse_edge_faces@primal',
    'uxarray.io._mpas._parse_edge_faces@dual',
    'uxarray.grid.coordinates._set_desired_longitude_range',
    'uxarray.io._mpas._parse_edge_nodes@primal',
    'uxarray.io._mpas._parse_edge_nodes@dual',
    'uxarray.io._esmf._read_esmf',
    'uxarray.io._exodus._read_exodus@coordxyz',
    'uxarray.io._exodus._read_exodus@coordxyz2',
    'uxarray.io._ugrid._standardize_connectivity']
STANDINS = ["readers"]
ASSUMPTIONS = []
EXPLANATION = ""
LEVEL_TEXT = "index / fill-value standardisation helpers of the readers (_replace_fill_values, _process_connectivity, MPAS _replace_padding/_replace_zeros/_to_zero_index) proved against 'zero-based, padded only with the standard fill value' for every table of every size; the whole ESMF reader (_read_esmf) proved: corner j of face f is the source index minus the declared start_index (default 1), padding exactly beyond numElementConn[f], caller arrays untouched; MPAS table parsers proved with ownership preconditions; the UGRID table standardisation (_standardize_connectivity: declared or inferred index base, declared fill value, caller buffer untouched) and the Exodus reader dataflow proved; the other readers x dialects are a bounded stand-in (10 formats, in-memory sources, independent decoder)"
LEVEL_NOTE = "numpy primitives as library models (elementwise ops, boolean-mask scatter, astype/copy); int overflow not modelled for these helpers; netCDF/geopandas I/O and the readers' xarray plumbing are only exercised by the stand-in"
