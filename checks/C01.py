"""C01 Readers decode every supported format to the faces the source describes"""
PROPERTY = "C01"
LEVEL = "proof"
FUNCTIONS = ['uxarray.io._mpas._replace_padding',
    'uxarray.io._mpas._replace_zeros',
    'uxarray.io._mpas._to_zero_index',
    'uxarray.grid.connectivity._replace_fill_values',
    'uxarray.io._topology._process_connectivity']
STANDINS = ["readers"]
ASSUMPTIONS = []
EXPLANATION = ""
