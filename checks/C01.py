"""C01 Readers decode every supported format to the faces the source describes"""
PROPERTY = "C01"
LEVEL = "proof"
FUNCTIONS = []
STANDINS = ["readers"]
ASSUMPTIONS = []
EXPLANATION = ""
