"""Contracts on Grid methods whose result must not depend on the history of earlier calls (C08, C11, C15, C05 cache).

src(self) is the source the grid was opened from; uf('f', ...) is the value a freshly opened grid computes for f(...).
Each method is proved to return that value from EVERY admissible cache state (the representation invariant in `requires`)
and to leave the invariant intact."""
from pyvc.contracts import contract

_G = "uxarray.grid.grid.Grid."

# ---- assumed contracts of the builders / computations (their own correctness is the subject of C05 / C15 / C11) -----------------
contract(_G + "compute_face_areas", trusted=True, props=["C05", "C08"],
         params={"self": "obj('Grid')", "quadrature_rule": "opaque", "order": "opaque", "latlon": "opaque"},
         returns="tuple(opaque, opaque)",
         ensures=["same(result[0], uf('face_areas', src(self), quadrature_rule, order, latlon))",
                  "same(result[1], uf('face_jacobian', src(self), quadrature_rule, order, latlon))"],
         # read-only on the grid: it returns its result and caches nothing (Grid.face_areas / face_jacobian do the caching)
         options={"frame_scan": ("self", [])},
         notes="value contract assumed (uninterpreted); frame obligation decided syntactically from the AST")

contract("uxarray.grid.geometry._grid_to_matplotlib_linecollection", trusted=True, props=["C15"],
         params={"grid": "obj('Grid')", "periodic_elements": "opaque", "projection": "opaque"},
         returns="opaque",
         ensures=["same(result, uf('build_lc', src(grid), periodic_elements, projection))"])

contract("uxarray.grid.geometry._grid_to_matplotlib_polycollection", trusted=True, props=["C15"],
         params={"grid": "obj('Grid')", "periodic_elements": "opaque", "projection": "opaque"},
         returns="tuple(opaque, opaque)",
         ensures=["same(result[0], uf('build_pc', src(grid), periodic_elements, projection))",
                  "same(result[1], uf('build_pc_idx', src(grid), periodic_elements, projection))"])

# ---- face_areas / face_jacobian: the cached default-rule values ------------------------------------------------------------------
_DEF_AREAS = "uf('face_areas', src(self), 'triangular', 4, True)"
_DEF_JAC = "uf('face_jacobian', src(self), 'triangular', 4, True)"
_INV_AREAS = f"implies(has(self._ds, 'face_areas'), same(entry(self._ds, 'face_areas').data, {_DEF_AREAS}))"
_INV_JAC = f"isnone(self._face_jacobian) or same(self._face_jacobian, {_DEF_JAC})"

contract(_G + "face_areas", props=["C05", "C08"],
         params={"self": "obj('Grid')"},
         requires=[_INV_AREAS, _INV_JAC],
         returns="opaque",
         ensures=[
             # from the property: "the cached face_areas equal a fresh default computation", whatever was computed before
             f"same(result.data, {_DEF_AREAS})",
             _INV_AREAS, _INV_JAC],
         raises=[("Exception", "False", "only_if")])

contract(_G + "face_jacobian", props=["C08"],
         params={"self": "obj('Grid')"},
         requires=[_INV_AREAS, _INV_JAC],
         returns="opaque",
         ensures=[f"same(result, {_DEF_JAC})", _INV_AREAS, _INV_JAC],
         raises=[("Exception", "False", "only_if")])

# ---- search trees: "the tree handed back always reflects the element kind, coordinate system and metric requested" -----------------
for _m, _slot in (("get_ball_tree", "_ball_tree"), ("get_kd_tree", "_kd_tree")):
    contract(_G + _m, props=["C11", "C08", "C09"],
             params={"self": f"obj('Grid', trees='{_slot}')", "coordinates": "opaque", "coordinate_system": "opaque", "distance_metric": "opaque",
                     "reconstruct": "bool"},
             returns="opaque",
             ensures=["same(result._coordinates, coordinates)",
                      "same(result.coordinate_system, coordinate_system)",
                      "same(result.distance_metric, distance_metric)",
                      f"same(self.{_slot}, result)"],
             raises=[("Exception", "False", "only_if")])

# ---- cached plotting geometry: result depends only on the arguments ---------------------------------------------------------------
_LC = "self._line_collection_cached_parameters"
_INV_LC = (f"isnone({_LC}['line_collection']) or same({_LC}['line_collection'], "
           f"uf('build_lc', src(self), {_LC}['periodic_elements'], {_LC}['projection']))")
contract(_G + "to_linecollection", props=["C15", "C08"],
         params={"self": "obj('Grid')", "periodic_elements": "choice('ignore', 'exclude', 'split', 'bogus')",
                 "projection": "optional(opaque)", "cache": "bool", "override": "bool"},
         requires=[_INV_LC],
         returns="opaque",
         ensures=["same(result, uf('build_lc', src(self), periodic_elements, projection))", _INV_LC],
         raises=[("ValueError", "periodic_elements == 'bogus'", "iff")])

_PC = "self._poly_collection_cached_parameters"
_INV_PC = (f"isnone({_PC}['poly_collection']) or (same({_PC}['poly_collection'], "
           f"uf('build_pc', src(self), {_PC}['periodic_elements'], {_PC}['projection'])) and "
           f"same({_PC}['corrected_to_original_faces'], uf('build_pc_idx', src(self), {_PC}['periodic_elements'], {_PC}['projection'])))")
contract(_G + "to_polycollection", props=["C15", "C08"],
         params={"self": "obj('Grid')", "periodic_elements": "choice('ignore', 'exclude', 'split', 'bogus')",
                 "projection": "optional(opaque)", "return_indices": "bool", "cache": "bool", "override": "bool",
                 "return_non_nan_polygon_indices": "bool"},
         requires=[_INV_PC],
         returns="opaque",
         ensures=[
             # the caller gets a private copy of what a fresh grid builds for exactly these arguments
             "implies(not return_indices, not is_tuple(result) and (same(result, uf('deepcopy', uf('build_pc', src(self), periodic_elements, projection))) "
             "or (same(result, uf('build_pc', src(self), periodic_elements, projection)) and not same(result, self._poly_collection_cached_parameters['poly_collection']))))",
             "implies(return_indices, is_tuple(result) and (same(item(result, 0), uf('deepcopy', uf('build_pc', src(self), periodic_elements, projection))) "
             "or (same(item(result, 0), uf('build_pc', src(self), periodic_elements, projection)) and not same(item(result, 0), self._poly_collection_cached_parameters['poly_collection']))) "
             "and same(item(result, 1), uf('build_pc_idx', src(self), periodic_elements, projection)))",
             _INV_PC],
         raises=[("ValueError", "periodic_elements == 'bogus'", "iff")])


# ---- per-instance state (C08, C15, C19): the conversion caches and cache slots of a Grid belong to that grid object - nothing
# mutable is bound at class level, where every Grid of the process would share it (syntactic obligation over the class body)
contract(_G + "__init__", props=["C08", "C15", "C19"], variant="class_state", params={}, returns="none", ensures=[],
         options={"class_state_scan": True})
