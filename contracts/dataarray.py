"""Contracts: uxarray/core/dataarray.py (C06 integration dispatch, C10 grid re-attachment hooks)"""
from pyvc.contracts import contract, inline

inline("uxarray.core.dataarray.UxDataArray.uxgrid", "uxarray.core.dataarray.UxDataArray._face_centered",
       "uxarray.core.dataarray.UxDataArray._node_centered", "uxarray.core.dataarray.UxDataArray._edge_centered")

_U = "uxarray.core.dataarray.UxDataArray."

# Grid.copy: assumed here (its independence is the subject of C19)
contract("uxarray.grid.grid.Grid.copy", variant="caller_view", trusted=True, props=["C10", "C19"],
         params={"self": "obj('Grid')"}, returns="opaque",
         ensures=["same(result, uf('grid_copy', self))", "not same(result, self)"])

# C10: every new array produced through the xarray hooks is re-attached to the grid
for _deep in ("True", "False", "absent"):
    pass

contract(_U + "_copy", props=["C10"],
         params={"self": "obj('UxDataArray')", "kwargs": {"deep": "optional(bool)"}},
         returns="opaque",
         ensures=[
             "isinstance_of(result, 'UxDataArray')",
             # shallow copy: the same grid; deep copy: an equal but independent grid
             "implies(isnone(kwargs['deep']) or not kwargs['deep'], same(result.uxgrid, self.uxgrid))",
             "implies(not isnone(kwargs['deep']) and kwargs['deep'], same(result.uxgrid, uf('grid_copy', self.uxgrid)) and "
             "not same(result.uxgrid, self.uxgrid))"],
         options={"callee_variants": {"uxarray.grid.grid.Grid.copy": "caller_view"}},
         raises=[("Exception", "False", "only_if")])

contract(_U + "_replace", props=["C10"],
         params={"self": "obj('UxDataArray')"},
         returns="opaque",
         ensures=["isinstance_of(result, 'UxDataArray')", "same(result.uxgrid, self.uxgrid)"],
         raises=[("Exception", "False", "only_if")])

# C06: integrate dispatches on the dimension the data live on
_DIMS = [("n_face",), ("time", "n_face"), ("time", "lev", "n_face"), ("n_node",), ("time", "n_node"), ("n_edge",), ("lev", "n_edge"),
         ("n_face", "lev"), ("time",)]
for _d in _DIMS:
    _face_last = _d[-1] == "n_face"
    contract(_U + "integrate", props=["C06"],
             params={"self": f"obj('UxDataArray', dims={_d!r})", "quadrature_rule": "opaque", "order": "opaque"},
             returns="opaque",
             ensures=[
                 # face-centred: the area-weighted sum over the face dimension, areas for THIS rule and order
                 "same(result.values, uf('wsum_last_axis', uf('face_areas', src(self.uxgrid), quadrature_rule, order, True), self.values))",
                 f"result.dims == {tuple(_d[:-1])!r}",
                 "same(result.name, self.name)", "same(result.uxgrid, self.uxgrid)"],
             # everything that is not face-centred (last dimension) is rejected
             raises=[("ValueError", str(not _face_last), "iff")],
             variant="dims=" + ",".join(_d))

# C09 / C10: re-attaching data to a sliced grid - the data are indexed with exactly the indices the grid slice recorded for the
# dimension the data live on, and the result carries the sliced grid
_ISEL = _U + "isel"
for _d, _k in ((("time", "n_face"), "face"), (("n_face",), "face"), (("n_node",), "node"), (("lev", "n_edge"), "edge"), (("time",), None)):
    contract(_U + "_slice_from_grid", props=["C09", "C10"], variant="dims=" + ",".join(_d),
             params={"self": f"obj('UxDataArray', dims={_d!r})", "sliced_grid": "obj('Grid', attrs='dict')"},
             returns="opaque",
             requires=[f"has(sliced_grid._ds, 'subgrid_{_k}_indices')"] if _k else [],
             ensures=["isinstance_of(result, 'UxDataArray')", "same(result.uxgrid, sliced_grid)"]
             + ([f"same(result.values, summary('{_ISEL}', self, None, False, 'raise', True, "
                 f"{{'n_{_k}': entry(sliced_grid._ds, 'subgrid_{_k}_indices')}}))"] if _k else []),
             options={"abstract": True, "summaries": [_ISEL]},
             raises=[("ValueError", str(_k is None), "iff")])


# Grid.copy itself (C10, C19): a NEW Grid built from a DEEP copy of the dataset, same format tag and dimension mapping
contract("uxarray.grid.grid.Grid.copy", props=["C10", "C19", "C20"],
         params={"self": "obj('Grid')"}, returns="opaque",
         ensures=["not same(result, self)",
                  "constructed(result, 'Grid', dscopy(self._ds, deep=True), source_grid_spec=self.source_grid_spec, "
                  "source_dims_dict=self._source_dims_dict)"],
         options={"abstract": True},
         raises=[("Exception", "False", "only_if")])


# UxDataArray.isel (C09 / C10): a grid dimension given as a keyword slices the GRID first and re-attaches the data through
# _slice_from_grid; everything else is plain xarray indexing (base class), which keeps the grid through the _replace/_copy hooks
_GISEL = "uxarray.grid.grid.Grid.isel"
for _d, _k in ((("time", "n_face"), "n_face"), (("n_node",), "n_node"), (("lev", "n_edge"), "n_edge")):
    _var = "dims=" + ",".join(_d)
    contract(_U + "isel", props=["C09", "C10"], variant=_var,
             params={"self": f"obj('UxDataArray', dims={_d!r})", "indexers": "none", "drop": "False", "missing_dims": "'raise'",
                     "ignore_grid": "bool", "indexers_kwargs": {_k: "opaque"}},
             returns="opaque",
             ensures=[
                 # grid slicing: the data are re-attached to the slice of THIS array's grid along the requested dimension
                 f"implies(not ignore_grid, same(result, summary('{_U}_slice_from_grid', self, "
                 f"summary('{_GISEL}', self.uxgrid, {{'{_k}': indexers_kwargs['{_k}']}}))))"],
             options={"abstract": True, "summaries": [_GISEL, _U + "_slice_from_grid"]},
             raises=[("Exception", "False", "only_if")])


# Grid.isel (C09): dispatch on the grid dimension - the indices given for a dimension are handed to the slicing routine of THAT
# dimension (node / edge indices are first turned into the faces containing them by those routines)
_SL = "uxarray.grid.slice."
for _k in ("n_node", "n_edge", "n_face"):
    _fn = {"n_node": "_slice_node_indices", "n_edge": "_slice_edge_indices", "n_face": "_slice_face_indices"}[_k]
    contract(_GISEL, props=["C09"], variant=_k,
             params={"self": "obj('Grid')", "dim_kwargs": {_k: "opaque"}},
             returns="opaque",
             ensures=[f"same(result, summary('{_SL}{_fn}', self, dim_kwargs['{_k}'], True))"],
             options={"abstract": True, "summaries": [_SL + f for f in ("_slice_node_indices", "_slice_edge_indices", "_slice_face_indices")]},
             raises=[("Exception", "False", "only_if")])
contract(_GISEL, props=["C09"], variant="two_dims",
         params={"self": "obj('Grid')", "dim_kwargs": {"n_node": "opaque", "n_face": "opaque"}},
         returns="opaque", ensures=[],
         options={"abstract": True, "summaries": [_SL + f for f in ("_slice_node_indices", "_slice_edge_indices", "_slice_face_indices")]},
         raises=[("ValueError", "True", "iff")])


# C06: Grid.calculate_total_face_area and UxDataset.integrate use the areas computed for THE REQUESTED rule and order
contract("uxarray.grid.grid.Grid.calculate_total_face_area", props=["C06", "C05"],
         params={"self": "obj('Grid')", "quadrature_rule": "opaque", "order": "opaque"}, returns="opaque",
         ensures=["same(result, lib('numpy.sum', uf('face_areas', src(self), quadrature_rule, order, True)))"],
         options={"abstract": True},
         raises=[("Exception", "False", "only_if")])
