"""Contracts: the `coordinates` setter of the cached search trees (C08 stale per-kind state, C11 element kind of the answers)"""
from pyvc.contracts import contract

_SLOT = {"nodes": "_tree_from_nodes", "face centers": "_tree_from_face_centers", "edge centers": "_tree_from_edge_centers"}
_COUNT = {"nodes": "n_node", "face centers": "n_face", "edge centers": "n_edge"}
_BUILD = {"nodes": "_build_from_nodes", "face centers": "_build_from_face_centers", "edge centers": "_build_from_edge_centers"}

for _cls in ("BallTree", "KDTree"):
    _Q = f"uxarray.grid.neighbors.{_cls}."
    # builders: assumed to build the sklearn tree of THAT element kind of this tree's grid / coordinate system / metric
    for _kind, _b in _BUILD.items():
        contract(_Q + _b, trusted=True, props=["C11"], params={"self": f"obj('{_cls}')"}, returns="opaque",
                 ensures=[f"same(result, uf('sk_tree', self, '{_kind}'))", "not isnone(result)"])
    # representation invariant: a filled slot holds the tree of its own kind
    _INV = [f"isnone(self.{_s}) or same(self.{_s}, uf('sk_tree', self, '{_k}'))" for _k, _s in _SLOT.items()]
    for _kind in list(_SLOT) + ["bogus"]:
        _ens = []
        if _kind != "bogus":
            _ens = [
                f"same(self._coordinates, '{_kind}')",
                # the tree that answers queries is the one of the requested kind ...
                f"same(self.{_SLOT[_kind]}, uf('sk_tree', self, '{_kind}'))",
                # ... and k is bounded by the number of elements of THAT kind
                f"self._n_elements == self._source_grid.{_COUNT[_kind]}",
            ] + _INV
        contract(_Q + "coordinates.setter", props=["C08", "C11"], variant=f"value={_kind}",
                 params={"self": f"obj('{_cls}')", "value": repr(_kind)},
                 requires=_INV,
                 returns="none",
                 ensures=_ens,
                 raises=[("ValueError", str(_kind == "bogus"), "iff")])
