"""Contracts: the `coordinates` setter of the cached search trees (C08 stale per-kind state, C11 element kind of the answers)"""
from pyvc.contracts import contract

_SLOT = {"nodes": "_tree_from_nodes", "face centers": "_tree_from_face_centers", "edge centers": "_tree_from_edge_centers"}
_COUNT = {"nodes": "n_node", "face centers": "n_face", "edge centers": "n_edge"}
_BUILD = {"nodes": "_build_from_nodes", "face centers": "_build_from_face_centers", "edge centers": "_build_from_edge_centers"}

for _cls in ("BallTree", "KDTree"):
    _Q = f"uxarray.grid.neighbors.{_cls}."
    # builders: assumed to build the sklearn tree of THAT element kind of this tree's grid / coordinate system / metric
    for _kind, _b in _BUILD.items():
        contract(_Q + _b, trusted=True, props=["C11"], params={"self": f"obj('{_cls}')"}, returns="opaque",
                 ensures=[f"same(result, uf('sk_tree', self, '{_kind}'))", "not isnone(result)"])
    # representation invariant: a filled slot holds the tree of its own kind
    _INV = [f"isnone(self.{_s}) or same(self.{_s}, uf('sk_tree', self, '{_k}'))" for _k, _s in _SLOT.items()]
    for _kind in list(_SLOT) + ["bogus"]:
        _ens = []
        if _kind != "bogus":
            _ens = [
                f"same(self._coordinates, '{_kind}')",
                # the tree that answers queries is the one of the requested kind ...
                f"same(self.{_SLOT[_kind]}, uf('sk_tree', self, '{_kind}'))",
                # ... and k is bounded by the number of elements of THAT kind
                f"self._n_elements == self._source_grid.{_COUNT[_kind]}",
            ] + _INV
        contract(_Q + "coordinates.setter", props=["C08", "C11"], variant=f"value={_kind}",
                 params={"self": f"obj('{_cls}')", "value": repr(_kind)},
                 requires=_INV,
                 returns="none",
                 ensures=_ens,
                 raises=[("ValueError", str(_kind == "bogus"), "iff")])


# ---- query / query_radius: what is handed to the sklearn tree and what is done with its answer (C11, dataflow) --------------------------
# "nearest first": the wrapped query is asked with the caller's flags (sort_results in particular), on the tree of the element
# kind in force, with the query points prepared for the tree's coordinate system; indices come back as they are (standard dtype,
# squeezed for a single point), distances of a spherical tree in degrees unless radians were asked for.
_N = "uxarray.grid.neighbors."
for _cls in ("BallTree", "KDTree"):
    _Q = f"{_N}{_cls}."
    for _cs in ("cartesian", "spherical"):
        _prep = (f"summary('{_N}_prepare_xyz_for_query', coords)" if _cs == "cartesian" else
                 f"summary('{_N}_prepare_xy_for_query', coords, in_radians, self.distance_metric)")
        _raw = f"meth('query', summary('{_Q}_current_tree', self), {_prep}, k, return_distance, dualtree, breadth_first, sort_results)"
        _one = f"same(getitem(attr({_prep}, 'shape'), 0), 1)"
        _sq = lambda t: f"meth('squeeze', {t})"                                                     # noqa: E731
        _ind_d = f"lib('numpy.asarray', item({_raw}, 1), dtype=INT_DTYPE)"
        _ind_o = f"lib('numpy.asarray', {_raw}, dtype=INT_DTYPE)"
        _d = f"item({_raw}, 0)"
        _deg = (lambda t: f"lib('numpy.rad2deg', {t})") if _cs == "spherical" else (lambda t: t)  # noqa: E731
        contract(_Q + "query", props=["C11"], variant=_cs,
                 params={"self": f"obj('{_cls}')", "coords": "opaque", "k": "int", "return_distance": "bool", "in_radians": "bool",
                         "dualtree": "opaque", "breadth_first": "opaque", "sort_results": "opaque"},
                 requires=[f"same(self.coordinate_system, '{_cs}')"],
                 returns="opaque",
                 ensures=[
                     # indices only
                     f"implies(not return_distance and {_one}, same(result, {_sq(_ind_o)}))",
                     f"implies(not return_distance and not {_one}, same(result, {_ind_o}))",
                     # distances and indices
                     f"implies(return_distance, is_tuple(result))",
                     f"implies(return_distance and {_one}, same(item(result, 1), {_sq(_ind_d)}))",
                     f"implies(return_distance and not {_one}, same(item(result, 1), {_ind_d}))",
                 ] + ([
                     f"implies(return_distance and {_one} and in_radians, same(item(result, 0), {_sq(_d)}))",
                     f"implies(return_distance and {_one} and not in_radians, same(item(result, 0), {_deg(_sq(_d))}))",
                     f"implies(return_distance and not {_one} and in_radians, same(item(result, 0), {_d}))",
                     f"implies(return_distance and not {_one} and not in_radians, same(item(result, 0), {_deg(_d)}))",
                 ] if _cs == "spherical" else [
                     f"implies(return_distance and {_one}, same(item(result, 0), {_sq(_d)}))",
                     f"implies(return_distance and not {_one}, same(item(result, 0), {_d}))",
                 ]),
                 options={"abstract": True, "summaries": [_N + "_prepare_xyz_for_query", _N + "_prepare_xy_for_query", _Q + "_current_tree"]},
                 raises=[("AssertionError", "k < 1 or k > self._n_elements", "iff")])

    # query_radius(count_only=True): the radius reaches the sklearn tree in the tree's unit (radians for a spherical tree)
    for _cs in ("cartesian", "spherical"):
        _prep = (f"summary('{_N}_prepare_xyz_for_query', coords)" if _cs == "cartesian" else
                 f"summary('{_N}_prepare_xy_for_query', coords, in_radians, self.distance_metric)")
        # BallTree documents r "in degrees" (whatever the unit of the query points); KDTree takes it in the unit of the query points
        _r = "r" if _cs == "cartesian" else ("deg2rad(r)" if _cls == "BallTree" else "ite(in_radians, r, deg2rad(r))")
        contract(_Q + "query_radius", props=["C11"], variant=_cs + ",count_only",
                 params={"self": f"obj('{_cls}')", "coords": "opaque", "r": "real", "return_distance": "opaque", "in_radians": "bool",
                         "count_only": "True", "sort_results": "opaque"},
                 requires=[f"same(self.coordinate_system, '{_cs}')"],
                 returns="opaque",
                 ensures=[f"same(result, meth('query_radius', summary('{_Q}_current_tree', self), {_prep}, {_r}, return_distance, True, sort_results))"],
                 options={"abstract": True, "summaries": [_N + "_prepare_xyz_for_query", _N + "_prepare_xy_for_query", _Q + "_current_tree"]},
                 raises=[("AssertionError", "r < 0", "iff")])


# ---- _prepare_xy_for_query (C11): the query points handed to the sklearn tree are the caller's points - (lat, lon) for the haversine
# metric, (lon, lat) otherwise, in radians - and the caller's array is left as supplied (frame)
for _metric, _swap in (("haversine", True), ("minkowski", False)):
    for _rad in (True, False):
        _c = (lambda x: x) if _rad else (lambda x: f"deg2rad({x})")
        for _rank in (2, 1):
            _src = (lambda i, c: f"xy[{i}, {c}]") if _rank == 2 else (lambda i, c: f"xy[{c}]")
            contract(_N + "_prepare_xy_for_query", props=["C11"], variant=f"{_metric},{'rad' if _rad else 'deg'},rank{_rank}",
                     sizes=["n_q"],
                     params={"xy": "arr(real, n_q, 2, owner='caller')" if _rank == 2 else "arr(real, 2, owner='caller')",
                             "use_radians": repr(_rad), "distance_metric": repr(_metric)},
                     returns="opaque",
                     ensures=["shape(result) == (n_q, 2)" if _rank == 2 else "shape(result) == (1, 2)",
                              ("forall(0, n_q, lambda i: " if _rank == 2 else "forall(0, 1, lambda i: ") +
                              f"eqr(result[i, 0], {_c(_src('i', 1 if _swap else 0))}) and eqr(result[i, 1], {_c(_src('i', 0 if _swap else 1))}))"],
                     options={"frames": True},
                     raises=[("Exception", "False", "only_if")])


# ---- tree builders (C11, C12; dataflow): what the sklearn tree of an element kind is built from ------------------------------------
# spherical: the (LATITUDE, LONGITUDE) columns of THAT element kind of this tree's grid, in radians, as numpy makes them (no cast to the
# dtype of the stored coordinates), with THIS tree's metric; cartesian: the (x, y, z) columns; a tree already built is handed back.
_GG = "uxarray.grid.grid.Grid."
_SK = {"BallTree": "BallTree", "KDTree": "KDTree"}
for _cls in ("BallTree", "KDTree"):
    _Q = f"{_N}{_cls}."
    for _kind, _b in _BUILD.items():
        _p = {"nodes": "node", "face centers": "face", "edge centers": "edge"}[_kind]
        _slot = _SLOT[_kind]

        def _v(c):
            return f"attr(summary('{_GG}{_p}_{c}', self._source_grid), 'values')"
        _sph = f"attr(lib('numpy.vstack', (lib('numpy.deg2rad', {_v('lat')}), lib('numpy.deg2rad', {_v('lon')}))), 'T')"
        _car = f"lib('numpy.stack', ({_v('x')}, {_v('y')}, {_v('z')}), axis=0 - 1)"
        for _sys, _coords in (("spherical", _sph), ("cartesian", _car)):
            contract(_Q + _b, props=["C11", "C12"], variant=f"built;{_sys}",
                     params={"self": f"obj('{_cls}')"}, returns="opaque",
                     requires=[f"same(self.coordinate_system, '{_sys}')", f"isnone(self.{_slot})"],
                     ensures=[f"same(result, self.{_slot})",
                              f"same(result, lib('sklearn.neighbors.{_SK[_cls]}', {_coords}, metric=self.distance_metric))"],
                     options={"abstract": True, "summaries": [_GG + f"{_p}_{c}" for c in ("lon", "lat", "x", "y", "z")]},
                     raises=[("Exception", "False", "only_if")])
