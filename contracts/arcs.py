"""Contracts: uxarray/grid/arcs.py:extreme_gca_latitude (C13: the bound of a face must contain the latitude bulge of its arcs)

What is proved (real arithmetic, unit end points): the interior candidate point the function evaluates is the STATIONARY point of
the latitude along the arc - for p = (1 - d) n1 + d n2,  d/dt [ p_z / |p| ] = 0  <=>  (n2z - n1z) |p|^2 - p_z (p . (n2 - n1)) = 0 -
as a ghost assertion on the function's own intermediate value, and that the result is never on the wrong side of either end
point's latitude.  That the stationary point is the extremum (and the bound tight) is calculus and stays with the bounded stand-in."""
from pyvc.contracts import contract, inline

inline("uxarray.utils.computing.dot")

_N1, _N2 = "gca_cart[0]", "gca_cart[1]"
_DOT = f"({_N1}[0]*{_N2}[0] + {_N1}[1]*{_N2}[1] + {_N1}[2]*{_N2}[2])"
_UNIT = (f"{_N1}[0]*{_N1}[0] + {_N1}[1]*{_N1}[1] + {_N1}[2]*{_N1}[2] == 1 and "
         f"{_N2}[0]*{_N2}[0] + {_N2}[1]*{_N2}[1] + {_N2}[2]*{_N2}[2] == 1")
_P = "node3"
_STATIONARY = (f"(n2[2] - n1[2]) * ({_P}[0]*{_P}[0] + {_P}[1]*{_P}[1] + {_P}[2]*{_P}[2]) - "
               f"{_P}[2] * ({_P}[0]*(n2[0] - n1[0]) + {_P}[1]*(n2[1] - n1[1]) + {_P}[2]*(n2[2] - n1[2])) == 0")

_UNITS = ("n1[0]*n1[0] + n1[1]*n1[1] + n1[2]*n1[2] == 1; n2[0]*n2[0] + n2[1]*n2[1] + n2[2]*n2[2] == 1; "
          "dot_n1_n2 == n1[0]*n2[0] + n1[1]*n2[1] + n1[2]*n2[2]")
_NODE3 = "; ".join(f"node3[{k}] == (1 - d_a_max) * n1[{k}] + d_a_max * n2[{k}]" for k in range(3))
_PREMISES = (_UNITS + "; -1 < dot_n1_n2; dot_n1_n2 < 1; "
             "denom == (n1[2] + n2[2]) * (dot_n1_n2 - 1); denom != 0; d_raw * denom == n1[2] * dot_n1_n2 - n2[2]; d_a_max == d_raw; "
             "0 < d_a_max; d_a_max < 1; "
             + "; ".join(f"node3[{k}] == (1 - d_a_max) * n1[{k}] + d_a_max * n2[{k}]" for k in range(3)))

for _t in ("max", "min"):
    contract("uxarray.grid.arcs.extreme_gca_latitude", props=["C13"], variant=_t,
             params={"gca_cart": "small(real, 2, 3)", "extreme_type": repr(_t)},
             requires=[_UNIT,
                       # a proper minor arc that is not symmetric about the equator (the stationary parameter is defined)
                       f"-1 < {_DOT} and {_DOT} < 1", f"{_N1}[2] + {_N2}[2] != 0"],
             returns="real",
             # the result is never on the wrong side of the latitude the library assigns to either end point
             ensures=[("result >= g_lat1 and result >= g_lat2" if _t == "max" else "result <= g_lat1 and result <= g_lat2"),
                      "-pi / 2 <= g_lat1 and g_lat1 <= pi / 2 and -pi / 2 <= g_lat2 and g_lat2 <= pi / 2"],
             asserts={"after:_, lat_n1 = _xyz_to_lonlat_rad_scalar(n1[0], n1[1], n1[2], normalize=True)": ["let g_lat1 = lat_n1"],
                      "after:_, lat_n2 = _xyz_to_lonlat_rad_scalar(n2[0], n2[1], n2[2], normalize=True)": ["let g_lat2 = lat_n2"],
                      # staged facts for the nonlinear lemma: the raw parameter satisfies its defining equation ...
                      "after^d_a_max = #0": [
                          "let d_raw = d_a_max",
                          "lemma denom != 0",
                          "lemma d_raw * denom == n1[2] * dot_n1_n2 - n2[2]"],
                      "after^node3 = #0": [
                          # ... clipping near 0 / 1 leaves a value strictly inside (0, 1) as it is ...
                          "lemma d_a_max == d_raw",
                          "lemma dot_n1_n2 == n1[0]*n2[0] + n1[1]*n2[1] + n1[2]*n2[2]",
                          "lemma denom == (n1[2] + n2[2]) * (dot_n1_n2 - 1)",
                          "lemma " + _STATIONARY + " using " + _PREMISES,
                          # the chord point is not the origin (n1 != -n2), so it can be normalised: |p|^2 = 1 - 2 d (1 - d) (1 - c) > 0,
                          # staged so that every step is a sub-second polynomial problem
                          f"let g_pp = {_P}[0]*{_P}[0] + {_P}[1]*{_P}[1] + {_P}[2]*{_P}[2]",
                          "lemma g_pp == 1 - 2 * d_a_max * (1 - d_a_max) * (1 - dot_n1_n2) using " + _UNITS + "; " + _NODE3,
                          "lemma d_a_max * (1 - d_a_max) <= 0.25 and d_a_max * (1 - d_a_max) > 0 using 0 < d_a_max; d_a_max < 1",
                          "let g_u = d_a_max * (1 - d_a_max)",
                          "let g_w = 1 - dot_n1_n2",
                          "lemma 2 * g_u * g_w < 1 using 0 < g_u; g_u <= 0.25; 0 < g_w; g_w < 2",
                          "lemma g_pp > 0 using g_pp == 1 - 2 * d_a_max * (1 - d_a_max) * (1 - dot_n1_n2); "
                          "2 * (d_a_max * (1 - d_a_max)) * (1 - dot_n1_n2) < 1"]},
             raises=[("Exception", "False", "only_if")])
