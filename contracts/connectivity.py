"""Contracts: uxarray/grid/connectivity.py (C02 edges, C03 incidence tables, C17 partitions)"""
from pyvc.contracts import contract, loop

# ---------------------------------------------------------------------------------------------
# _build_edge_face_connectivity(face_edges, n_nodes_per_face, n_edge)          (DESIGN B.1)
#
# manifold ghost functions: fa(e) = first (lowest-numbered) face of edge e, fb(e) = second face or NONE (= -1),
# pos(f, e) = position of e in row f.  Their existence for a manifold grid is the property's own precondition
# ("each edge bounded by at most two faces") + C02 (every edge belongs to some face).
# ---------------------------------------------------------------------------------------------
_NONE = "(0 - 1)"
_EF_PRE = [
    "forall(0, n_face, lambda f: 0 <= n_nodes_per_face[f] and n_nodes_per_face[f] <= W)",
    "forall(0, n_face, 0, W, lambda f, j: implies(j < n_nodes_per_face[f], 0 <= face_edges[f, j] and face_edges[f, j] < n_edge))",
    f"forall(0, n_edge, lambda e: 0 <= fa[e] and fa[e] < n_face and (fb[e] == {_NONE} or (fa[e] < fb[e] and fb[e] < n_face)))",
    "forall(0, n_face, 0, W, lambda f, j: implies(j < n_nodes_per_face[f], "
    "(f == fa[face_edges[f, j]] or f == fb[face_edges[f, j]]) and pos[f, face_edges[f, j]] == j))",
    "forall(0, n_edge, lambda e: 0 <= pos[fa[e], e] and pos[fa[e], e] < n_nodes_per_face[fa[e]] and face_edges[fa[e], pos[fa[e], e]] == e)",
    f"forall(0, n_edge, lambda e: implies(fb[e] != {_NONE}, 0 <= pos[fb[e], e] and pos[fb[e], e] < n_nodes_per_face[fb[e]] "
    "and face_edges[fb[e], pos[fb[e], e]] == e))",
]
# invariant over processed (face, position) pairs: faces < Fi completely, face Fi up to position t
_DONE_A = "(fa[e] < {Fi} or (fa[e] == {Fi} and pos[{Fi}, e] < {t}))"
_DONE_B = "(fb[e] != " + _NONE + " and (fb[e] < {Fi} or (fb[e] == {Fi} and pos[{Fi}, e] < {t})))"


def _inv(Fi, t):
    return ("forall(0, n_edge, lambda e: edge_faces[e, 0] == ite(" + _DONE_A.format(Fi=Fi, t=t) + ", fa[e], FILL) and "
            "edge_faces[e, 1] == ite(" + _DONE_B.format(Fi=Fi, t=t) + ", fb[e], FILL))")


contract(
    "uxarray.grid.connectivity._build_edge_face_connectivity", props=["C03"],
    sizes=["n_face", "W", "n_edge"],
    params={"face_edges": "arr(int, n_face, W, space='face', vspace='edge', dtype='int64')",
            "n_nodes_per_face": "arr(int, n_face, space='face')", "n_edge": "n_edge"},
    ghost_params={"fa": "arr(int, n_edge)", "fb": "arr(int, n_edge)", "pos": "arr(int, n_face, n_edge)"},
    requires=_EF_PRE,
    returns="arr(int, n_edge, 2)",
    ensures=[
        "shape(result) == (n_edge, 2)",
        # from the property: boundary edge = one face followed by padding, interior edge = its two faces
        f"forall(0, n_edge, lambda e: result[e, 0] == fa[e] and result[e, 1] == ite(fb[e] == {_NONE}, FILL, fb[e]))",
        # f is listed in row e iff e is one of f's edges
        "forall(0, n_edge, 0, n_face, lambda e, f: iff(result[e, 0] == f or result[e, 1] == f, "
        "0 <= pos[f, e] and pos[f, e] < n_nodes_per_face[f] and face_edges[f, pos[f, e]] == e))",
        "dtype_is(result, 'int64')",
    ],
    loops={
        0: loop(counter="Fi", invariants=[_inv("Fi", "0")]),
        1: loop(counter="t", invariants=[_inv("face_idx", "t")]),
    },
    raises=[("Exception", "False", "only_if")],
    finite_sizes=[{"n_face": 1, "W": 1, "n_edge": 1}, {"n_face": 2, "W": 2, "n_edge": 3}],
)

# ---------------------------------------------------------------------------------------------
# standard form of a face-node table, with the ghost array npf (number of real corners per face)
# ---------------------------------------------------------------------------------------------
_STD = [
    "forall(0, n_face, lambda f: 1 <= npf[f] and npf[f] <= n_max_face_nodes)",
    "forall(0, n_face, 0, n_max_face_nodes, lambda f, j: iff(j < npf[f], {F}[f, j] != FILL))",
]


def _std(F):
    return [c.replace("{F}", F) for c in _STD]


# close_face_nodes: row f = its corners, then the first corner again, then padding (docstring example; C02 "closing pair")
contract(
    "uxarray.grid.connectivity.close_face_nodes", props=["C02"],
    sizes=["n_face", "n_max_face_nodes"],
    params={"face_node_connectivity": "arr(int, n_face, n_max_face_nodes, space='face', vspace='node')",
            "n_face": "n_face", "n_max_face_nodes": "n_max_face_nodes"},
    ghost_params={"npf": "arr(int, n_face)"},
    size_constraints=["n_max_face_nodes >= 1"],   # column 0 is read unconditionally (a table without columns raises IndexError)
    requires=_std("face_node_connectivity"),
    returns="arr(int, n_face, n_max_face_nodes + 1)",
    ensures=[
        "shape(result) == (n_face, n_max_face_nodes + 1)",
        "forall(0, n_face, 0, n_max_face_nodes + 1, lambda f, j: result[f, j] == "
        "ite(j < npf[f], face_node_connectivity[f, j], ite(j == npf[f], face_node_connectivity[f, 0], FILL)))",
        "owner_is(result, 'fresh')",
    ],
    raises=[("Exception", "False", "only_if")],
    replay={"gen": "std_table"},
)

# _build_n_nodes_per_face: number of real corners of each face
contract(
    "uxarray.grid.connectivity._build_n_nodes_per_face", props=["C02"],
    sizes=["n_face", "n_max_face_nodes"],
    params={"face_nodes": "arr(int, n_face, n_max_face_nodes, space='face', vspace='node')",
            "n_face": "n_face", "n_max_face_nodes": "n_max_face_nodes"},
    ghost_params={"npf": "arr(int, n_face)"},
    requires=_std("face_nodes"),
    returns="arr(int, n_face)",
    ensures=["shape(result) == (n_face,)", "forall(0, n_face, lambda f: result[f] == npf[f])"],
    raises=[("Exception", "False", "only_if")],
)

# _build_face_edge_connectivity: row-major reshape of the per-(face, corner) edge index
contract(
    "uxarray.grid.connectivity._build_face_edge_connectivity", props=["C02"],
    sizes=["n_face", "n_max_face_nodes"],
    params={"inverse_indices": "arr(int, n_face * n_max_face_nodes)", "n_face": "n_face", "n_max_face_nodes": "n_max_face_nodes"},
    returns="arr(int, n_face, n_max_face_nodes)",
    ensures=["shape(result) == (n_face, n_max_face_nodes)",
             "forall(0, n_face, 0, n_max_face_nodes, lambda f, j: result[f, j] == inverse_indices[n_max_face_nodes * f + j])"],
    raises=[("Exception", "False", "only_if")],
)

# ---------------------------------------------------------------------------------------------
# _build_node_faces_connectivity(face_nodes, n_node)                                 (DESIGN B.2, without ghost witnesses)
# face f is listed in row n  iff  n is a corner of f; rows are padded at the end only
# ---------------------------------------------------------------------------------------------
_FN = "old(face_nodes)"          # the loop rebinds the name `face_nodes` to the current row
_ROWLEN = "len(node_face_conn[n])"
_ELEM = "node_face_conn[n][t]"


def _nf_listed(upto_face, upto_pos):
    """every listed face really has n as a corner (among the (face, position) pairs processed so far)"""
    return (f"forall(0, n_node, lambda n: forall(0, {_ROWLEN}, lambda t: 0 <= {_ELEM} and "
            f"{_ELEM} {'<' if upto_pos == '0' else '<='} {upto_face} and has_corner({_FN}, {_ELEM}, n), pattern=lambda t: {_ELEM}))")


def _listed_in(node, face):
    return f"exists(0, len(node_face_conn[{node}]), lambda t: node_face_conn[{node}][t] == {face}, pattern=lambda t: node_face_conn[{node}][t])"


def _nf_complete(upto_face, upto_pos):
    """every processed (face, position) pair with a real corner n is listed in row n"""
    c = (f"forall(0, {upto_face}, 0, W, lambda f, j: implies({_FN}[f, j] != FILL, {_listed_in(_FN + '[f, j]', 'f')}), "
         f"pattern=lambda f, j: {_FN}[f, j])")
    if upto_pos != "0":
        c += (f" and forall(0, {upto_pos}, lambda j: implies({_FN}[{upto_face}, j] != FILL, "
              f"{_listed_in(_FN + '[' + upto_face + ', j]', upto_face)}), pattern=lambda j: {_FN}[{upto_face}, j])")
    return c


_NF_LEN = "forall(0, n_node, lambda n: 0 <= len(node_face_conn[n]))"

contract(
    "uxarray.grid.connectivity._build_node_faces_connectivity", props=["C03"],
    sizes=["n_face", "W", "n_node"],
    size_constraints=["n_node >= 1"],
    params={"face_nodes": "arr(int, n_face, W, space='face', vspace='node')", "n_node": "n_node"},
    requires=["forall(0, n_face, 0, W, lambda f, j: face_nodes[f, j] == FILL or (0 <= face_nodes[f, j] and face_nodes[f, j] < n_node))"],
    returns="tuple(arr(int, n_node, n_cols), int)",
    ensures=[
        "shape(result[0])[0] == n_node and shape(result[0])[1] == result[1] and result[1] >= 0",
        # f listed in row n  =>  n is a corner of f
        "forall(0, n_node, 0, result[1], lambda n, t: implies(result[0][n, t] != FILL, 0 <= result[0][n, t] and result[0][n, t] < n_face and "
        "has_corner(face_nodes, result[0][n, t], n)))",
        # n is a corner of f  =>  f listed in row n
        "forall(0, n_face, 0, W, lambda f, j: implies(face_nodes[f, j] != FILL, "
        "exists(0, result[1], lambda t: result[0][face_nodes[f, j], t] == f)))",
        # padding only at the end of a row
        "forall(0, n_node, 0, result[1], 0, result[1], lambda n, t, u: implies(t < u and result[0][n, t] == FILL, result[0][n, u] == FILL))",
        "dtype_is(result[0], 'int64')",
    ],
    loops={
        0: loop(counter="fi", invariants=[_NF_LEN, _nf_listed("fi", "0"), _nf_complete("fi", "0")]),
        1: loop(counter="jp", invariants=[_NF_LEN, _nf_listed("face_i", "jp"), _nf_complete("face_i", "jp")]),
        2: loop(counter="km", invariants=["n_max_node_faces >= 0 - 1",
                                          "forall(0, km, lambda n: len(node_face_conn[n]) <= n_max_node_faces)"]),
        3: loop(counter="kn", invariants=[
            "forall(0, kn, 0, n_max_node_faces, lambda n, t: node_face_connectivity[n, t] == ite(t < len(node_face_conn[n]), node_face_conn[n][t], FILL))",
            "forall(kn, n_node, 0, n_max_node_faces, lambda n, t: node_face_connectivity[n, t] == FILL)"]),
    },
    raises=[("Exception", "False", "only_if")],
)

# ---------------------------------------------------------------------------------------------
# _build_face_face_connectivity(grid)                                                   (C03)
# row f lists the face on the other side of each interior edge of f - EXACTLY once per shared edge.
# Proved with a ghost witness table wit[f][t] = the edge that put entry t into row f: wit is injective per row and
# covers every interior edge incident to f, so positions of row f and interior edges of f are in bijection.
# ---------------------------------------------------------------------------------------------
_EF = "entry(grid._ds, 'edge_face_connectivity').data"
_INT = f"({_EF}[{{e}}, 0] != FILL and {_EF}[{{e}}, 1] != FILL)"          # interior edge: a real face on both sides


def _ff_wit(upto):
    """every entry of every row has its witness edge among the edges processed so far, and names the face across it"""
    w = "wit[f][t]"
    return (f"forall(0, n_face, lambda f: len(wit[f]) == len(face_neighbors[f]) and 0 <= len(wit[f]) and "
            f"forall(0, len(wit[f]), lambda t: 0 <= {w} and {w} < {upto} and {_INT.format(e=w)} and "
            f"(({_EF}[{w}, 0] == f and face_neighbors[f][t] == {_EF}[{w}, 1]) or "
            f"({_EF}[{w}, 1] == f and face_neighbors[f][t] == {_EF}[{w}, 0])), pattern=lambda t: [{w}, face_neighbors[f][t]]))")


_FF_INJ = ("forall(0, n_face, lambda f: forall(0, len(wit[f]), 0, len(wit[f]), lambda t, u: implies(t < u, wit[f][t] != wit[f][u]), "
           "pattern=lambda t, u: (wit[f][t], wit[f][u])))")


def _ff_cover(upto):
    """every interior edge processed so far is the witness of one entry in the row of each of its two faces"""
    return (f"forall(0, {upto}, lambda e: implies({_INT.format(e='e')}, "
            f"exists(0, len(wit[{_EF}[e, 0]]), lambda t: wit[{_EF}[e, 0]][t] == e, pattern=lambda t: wit[{_EF}[e, 0]][t]) and "
            f"exists(0, len(wit[{_EF}[e, 1]]), lambda t: wit[{_EF}[e, 1]][t] == e, pattern=lambda t: wit[{_EF}[e, 1]][t])), "
            f"pattern=lambda e: {_EF}[e, 0])")


contract(
    "uxarray.grid.connectivity._build_face_face_connectivity", props=["C03"],
    sizes=["n_face", "n_edge", "W"],
    params={"grid": "obj('Grid', sizes={'n_face': 'n_face', 'n_edge': 'n_edge'}, "
                    "tables={'edge_face_connectivity': 'arr(int, n_edge, 2)', 'face_edge_connectivity': 'arr(int, n_face, W)'})"},
    requires=[
        # edge_face_connectivity in standard form: a real face or FILL on each side, never the same face on both sides
        f"forall(0, n_edge, 0, 2, lambda e, s: {_EF}[e, s] == FILL or (0 <= {_EF}[e, s] and {_EF}[e, s] < n_face))",
        f"forall(0, n_edge, lambda e: implies({_INT.format(e='e')}, {_EF}[e, 0] != {_EF}[e, 1]))",
        # a face has at most n_max_face_edges (= W) interior edges: stated through the number of edges listing it
        "forall(0, n_face, lambda f: inc(f, n_edge) <= W)",
    ],
    returns="arr(int, n_face, W)",
    ensures=["shape(result) == (n_face, W)",
             # row f: the faces across the interior edges of f, once per edge (positions <-> interior edges of f, via the witnesses),
             # padded at the end only
             "forall(0, n_face, 0, W, lambda f, t: implies(t < inc(f, n_edge), result[f, t] != FILL), pattern=lambda f, t: result[f, t])",
             "forall(0, n_face, 0, W, lambda f, t: implies(t >= inc(f, n_edge), result[f, t] == FILL), pattern=lambda f, t: result[f, t])",
             f"forall(0, n_edge, lambda e: implies({_INT.format(e='e')}, "
             f"exists(0, W, lambda t: result[{_EF}[e, 0], t] == {_EF}[e, 1]) and exists(0, W, lambda t: result[{_EF}[e, 1], t] == {_EF}[e, 0])))"],
    loops={0: loop(counter="k", invariants=[_ff_wit("k"), _FF_INJ, _ff_cover("k"),
                                            "forall(0, n_face, lambda f: len(wit[f]) == inc(f, k))"],
                   ghost_init=["let wit = listmap(n_face)"])},
    finite_sizes=[{"n_face": 2, "n_edge": 2, "W": 2}, {"n_face": 3, "n_edge": 3, "W": 2}],
    asserts={"after:face_neighbors[face1].append(face2)": ["append wit, face1, k"],
             "after:face_neighbors[face2].append(face1)": ["append wit, face2, k"]},
    options={"callee_variants": {"uxarray.grid.grid.Grid.face_node_connectivity": "ds_view"},
             # inc(f, k): number of interior edges among the first k that have face f on one side
             "recdefs": [("inc", ["f", "k"], f"ite(k <= 0, 0, inc(f, k - 1) + ite({_INT.format(e='k - 1')} and "
                                               f"({_EF}[k - 1, 0] == f or {_EF}[k - 1, 1] == f), 1, 0))")]},
    raises=[("Exception", "False", "only_if")],
)
