"""Contracts: uxarray/grid/coordinates.py (C04).  The conversion functions are written with
elementwise numpy operations only, so they are verified pointwise: the parameters are typed
as reals (any indexing/reduction on them would make the function UNDECIDED)."""
from pyvc.contracts import contract, loop, inline

# bounded stand-in sampling: moderate magnitudes, float tolerance for the real-arithmetic clauses
_RP = {"no_fill": True, "real_range": 2.0, "rtol": 1e-9, "atol": 1e-9}

_UNIT = "eqr(result[0] * result[0] + result[1] * result[1] + result[2] * result[2], 1)"

contract("uxarray.grid.coordinates._lonlat_rad_to_xyz", props=["C04", "C16", "C05"],
         params={"lon": "real", "lat": "real"},
         returns="tuple(real, real, real)", replay=_RP,
         ensures=[_UNIT,
                  "eqr(result[0], cos(lon) * cos(lat)) and eqr(result[1], sin(lon) * cos(lat)) and eqr(result[2], sin(lat))"])

contract("uxarray.grid.coordinates._normalize_xyz", props=["C04"], options={"split": ["x != 0", "y != 0"]},
         params={"x": "real", "y": "real", "z": "real"},
         requires=["x != 0 or y != 0 or z != 0"],
         returns="tuple(real, real, real)", replay=_RP,
         ensures=[_UNIT,
                  # direction preserved: result = v / |v| with |v| > 0
                  "eqr(result[0] * sqrt(x*x + y*y + z*z), x) and eqr(result[1] * sqrt(x*x + y*y + z*z), y) "
                  "and eqr(result[2] * sqrt(x*x + y*y + z*z), z)",
                  "sqrt(x*x + y*y + z*z) > 0"])

contract("uxarray.grid.coordinates._normalize_xyz_scalar", props=["C04"], options={"split": ["x != 0", "y != 0"]},
         params={"x": "real", "y": "real", "z": "real"},
         requires=["x != 0 or y != 0 or z != 0"],
         returns="tuple(real, real, real)", replay=_RP,
         ensures=[_UNIT,
                  "eqr(result[0] * sqrt(x*x + y*y + z*z), x) and eqr(result[1] * sqrt(x*x + y*y + z*z), y) "
                  "and eqr(result[2] * sqrt(x*x + y*y + z*z), z)",
                  "sqrt(x*x + y*y + z*z) > 0"])

_TOL = "(1.0 - ERROR_TOLERANCE)"
# u = v/|v| ; expressed through d = |v|
_D = "sqrt(x*x + y*y + z*z)"
_RT = ("eqr(cos(result[0]) * cos(result[1]) * {d}, x) and eqr(sin(result[0]) * cos(result[1]) * {d}, y) "
       "and eqr(sin(result[1]) * {d}, z)")

for _q in ("_xyz_to_lonlat_rad", "_xyz_to_lonlat_rad_scalar"):
    contract("uxarray.grid.coordinates." + _q, props=["C04"],
             params={"x": "real", "y": "real", "z": "real", "normalize": "True"},
             requires=["x != 0 or y != 0 or z != 0"],
             returns="tuple(real, real)", replay=_RP,
             ensures=["0 <= result[0] and result[0] < 2 * pi",
                      "-pi / 2 <= result[1] and result[1] <= pi / 2",
                      # away from the poles the result converts back to the same direction
                      f"implies(abs(z) <= {_TOL} * {_D}, " + _RT.format(d=_D) + ")",
                      # pole snap (library tolerance 1e-8): latitude +-pi/2, longitude 0
                      f"implies(abs(z) > {_TOL} * {_D}, result[0] == 0 and result[1] == ite(z > 0, pi / 2, -pi / 2))"])

contract("uxarray.grid.coordinates._xyz_to_lonlat_rad_no_norm", props=["C04"],
         params={"x": "real", "y": "real", "z": "real"},
         requires=["eqr(x*x + y*y + z*z, 1)"],
         returns="tuple(real, real)", replay=_RP,
         ensures=["0 <= result[0] and result[0] < 2 * pi",
                  "-pi / 2 <= result[1] and result[1] <= pi / 2",
                  f"implies(abs(z) <= {_TOL}, " + _RT.format(d="1") + ")",
                  f"implies(abs(z) > {_TOL}, result[0] == 0 and result[1] == ite(z > 0, pi / 2, -pi / 2))"])

_RTD = ("eqr(cos(deg2rad(result[0])) * cos(deg2rad(result[1])) * {d}, x) and "
        "eqr(sin(deg2rad(result[0])) * cos(deg2rad(result[1])) * {d}, y) and eqr(sin(deg2rad(result[1])) * {d}, z)")
contract("uxarray.grid.coordinates._xyz_to_lonlat_deg", props=["C04", "C01"],
         params={"x": "real", "y": "real", "z": "real", "normalize": "True"},
         requires=["x != 0 or y != 0 or z != 0"],
         returns="tuple(real, real)", replay=_RP,
         ensures=["-180 <= result[0] and result[0] < 180",
                  "-90 <= result[1] and result[1] <= 90",
                  f"implies(abs(z) <= {_TOL} * {_D}, " + _RTD.format(d=_D) + ")",
                  f"implies(abs(z) > {_TOL} * {_D}, result[0] == 0 and result[1] == ite(z > 0, 90, -90))"])

# ---- the same conversions called with ARRAYS (as the populate functions do): the caller's buffers are never written --------------------
# (the value contract above is proved for a generic element; numpy's in-place operators on array arguments would write through to
# the grid's stored coordinates - an ownership obligation, independent of the values)
for _q in ("_xyz_to_lonlat_rad", "_xyz_to_lonlat_deg", "_normalize_xyz", "_lonlat_rad_to_xyz"):
    _ps = ({"lon": "arr(real, n, owner='caller')", "lat": "arr(real, n, owner='caller')"} if _q == "_lonlat_rad_to_xyz" else
           {"x": "arr(real, n, owner='caller')", "y": "arr(real, n, owner='caller')", "z": "arr(real, n, owner='caller')"})
    contract("uxarray.grid.coordinates." + _q, variant="arrays", props=["C04", "C08", "C19"],
             sizes=["n"], params=_ps, returns="opaque",
             ensures=[f"forall(0, n, lambda i: eqr({a}[i], old({a})[i]))" for a in _ps],
             options={"frames": True, "abstract": True,
                      "callee_variants": {"uxarray.grid.coordinates." + c: "arrays" for c in ("_normalize_xyz", "_xyz_to_lonlat_rad")}})

# ---- centroid builders (C04 "centres the source does not supply are the normalised mean of the element's corner unit vectors") ---------
# caller-side elementwise view of the proved _normalize_xyz (its value contract is proved for a generic element above)
contract("uxarray.grid.coordinates._normalize_xyz", variant="elementwise", trusted=True, props=["C04"],
         sizes=["n"], params={"x": "arr(real, n)", "y": "arr(real, n)", "z": "arr(real, n)"},
         returns="tuple(arr(real, n), arr(real, n), arr(real, n))",
         # component c of the result at position i is normc(x[i], y[i], z[i]) - the scalar function whose contract (unit length, same
         # direction) is proved above for a generic element
         ensures=["forall(0, n, lambda i: result[0][i] == ufr('norm_x', x[i], y[i], z[i]) and result[1][i] == ufr('norm_y', x[i], y[i], z[i]) "
                  "and result[2][i] == ufr('norm_z', x[i], y[i], z[i]), pattern=lambda i: [result[0][i], result[1][i], result[2][i]])"],
         notes="elementwise lifting of the scalar contract (the function uses elementwise numpy operations only)")

_MX, _MY, _MZ = (f"mean1(node_{c}[face_nodes[f, 0:n_nodes_per_face[f]]])" for c in "xyz")
contract("uxarray.grid.coordinates._construct_face_centroids", props=["C04"],
         sizes=["n_node", "n_face", "W"],
         params={"node_x": "arr(real, n_node)", "node_y": "arr(real, n_node)", "node_z": "arr(real, n_node)",
                 "face_nodes": "arr(int, n_face, W)", "n_nodes_per_face": "arr(int, n_face)"},
         requires=["forall(0, n_face, lambda f: 0 <= n_nodes_per_face[f] and n_nodes_per_face[f] <= W)",
                   "forall(0, n_face, 0, W, lambda f, t: implies(t < n_nodes_per_face[f], 0 <= face_nodes[f, t] and face_nodes[f, t] < n_node))"],
         returns="tuple(arr(real, n_face), arr(real, n_face), arr(real, n_face))",
         # centre of face f = normalise(mean of the coordinates of exactly its own real corners, in each component)
         ensures=[f"forall(0, n_face, lambda f: result[{k}][f] == ufr('norm_{c}', {_MX}, {_MY}, {_MZ}), pattern=lambda f: result[{k}][f])"
                  for k, c in enumerate("xyz")],
         loops={0: loop(counter="fi", invariants=[
             f"forall(0, fi, lambda f: centroid_x[f] == {_MX} and centroid_y[f] == {_MY} and centroid_z[f] == {_MZ}, "
             f"pattern=lambda f: [centroid_x[f], centroid_y[f], centroid_z[f]])"])},
         options={"callee_variants": {"uxarray.grid.coordinates._normalize_xyz": "elementwise"}},
         raises=[("Exception", "False", "only_if")])

# edge centres: normalise(midpoint of the chord between the edge's two nodes) - the arc midpoint
_EX, _EY, _EZ = (f"((node_{c}[edge_node_conn[e, 0]] + node_{c}[edge_node_conn[e, 1]]) / 2)" for c in "xyz")
contract("uxarray.grid.coordinates._construct_edge_centroids", props=["C04"],
         sizes=["n_node", "n_edge"],
         params={"node_x": "arr(real, n_node)", "node_y": "arr(real, n_node)", "node_z": "arr(real, n_node)",
                 "edge_node_conn": "arr(int, n_edge, 2)"},
         requires=["forall(0, n_edge, 0, 2, lambda e, s: 0 <= edge_node_conn[e, s] and edge_node_conn[e, s] < n_node)"],
         returns="tuple(arr(real, n_edge), arr(real, n_edge), arr(real, n_edge))",
         ensures=[f"forall(0, n_edge, lambda e: result[{k}][e] == ufr('norm_{c}', {_EX}, {_EY}, {_EZ}), pattern=lambda e: result[{k}][e])"
                  for k, c in enumerate("xyz")],
         options={"callee_variants": {"uxarray.grid.coordinates._normalize_xyz": "elementwise"}},
         raises=[("Exception", "False", "only_if")])
