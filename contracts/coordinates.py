"""Contracts: uxarray/grid/coordinates.py (C04).  The conversion functions are written with
elementwise numpy operations only, so they are verified pointwise: the parameters are typed
as reals (any indexing/reduction on them would make the function UNDECIDED)."""
from pyvc.contracts import contract, loop, inline

# bounded stand-in sampling: moderate magnitudes, float tolerance for the real-arithmetic clauses
_RP = {"no_fill": True, "real_range": 2.0, "rtol": 1e-9, "atol": 1e-9}

_UNIT = "eqr(result[0] * result[0] + result[1] * result[1] + result[2] * result[2], 1)"

contract("uxarray.grid.coordinates._lonlat_rad_to_xyz", props=["C04", "C16", "C05"],
         params={"lon": "real", "lat": "real"},
         returns="tuple(real, real, real)", replay=_RP,
         ensures=[_UNIT,
                  "eqr(result[0], cos(lon) * cos(lat)) and eqr(result[1], sin(lon) * cos(lat)) and eqr(result[2], sin(lat))"])

contract("uxarray.grid.coordinates._normalize_xyz", props=["C04"], options={"split": ["x != 0", "y != 0"]},
         params={"x": "real", "y": "real", "z": "real"},
         requires=["x != 0 or y != 0 or z != 0"],
         returns="tuple(real, real, real)", replay=_RP,
         ensures=[_UNIT,
                  # direction preserved: result = v / |v| with |v| > 0
                  "eqr(result[0] * sqrt(x*x + y*y + z*z), x) and eqr(result[1] * sqrt(x*x + y*y + z*z), y) "
                  "and eqr(result[2] * sqrt(x*x + y*y + z*z), z)",
                  "sqrt(x*x + y*y + z*z) > 0"])

contract("uxarray.grid.coordinates._normalize_xyz_scalar", props=["C04"], options={"split": ["x != 0", "y != 0"]},
         params={"x": "real", "y": "real", "z": "real"},
         requires=["x != 0 or y != 0 or z != 0"],
         returns="tuple(real, real, real)", replay=_RP,
         ensures=[_UNIT,
                  "eqr(result[0] * sqrt(x*x + y*y + z*z), x) and eqr(result[1] * sqrt(x*x + y*y + z*z), y) "
                  "and eqr(result[2] * sqrt(x*x + y*y + z*z), z)",
                  "sqrt(x*x + y*y + z*z) > 0"])

_TOL = "(1.0 - ERROR_TOLERANCE)"
# u = v/|v| ; expressed through d = |v|
_D = "sqrt(x*x + y*y + z*z)"
_RT = ("eqr(cos(result[0]) * cos(result[1]) * {d}, x) and eqr(sin(result[0]) * cos(result[1]) * {d}, y) "
       "and eqr(sin(result[1]) * {d}, z)")

for _q in ("_xyz_to_lonlat_rad", "_xyz_to_lonlat_rad_scalar"):
    contract("uxarray.grid.coordinates." + _q, props=["C04"],
             params={"x": "real", "y": "real", "z": "real", "normalize": "True"},
             requires=["x != 0 or y != 0 or z != 0"],
             returns="tuple(real, real)", replay=_RP,
             ensures=["0 <= result[0] and result[0] < 2 * pi",
                      "-pi / 2 <= result[1] and result[1] <= pi / 2",
                      # away from the poles the result converts back to the same direction
                      f"implies(abs(z) <= {_TOL} * {_D}, " + _RT.format(d=_D) + ")",
                      # pole snap (library tolerance 1e-8): latitude +-pi/2, longitude 0
                      f"implies(abs(z) > {_TOL} * {_D}, result[0] == 0 and result[1] == ite(z > 0, pi / 2, -pi / 2))"])

contract("uxarray.grid.coordinates._xyz_to_lonlat_rad_no_norm", props=["C04"],
         params={"x": "real", "y": "real", "z": "real"},
         requires=["eqr(x*x + y*y + z*z, 1)"],
         returns="tuple(real, real)", replay=_RP,
         ensures=["0 <= result[0] and result[0] < 2 * pi",
                  "-pi / 2 <= result[1] and result[1] <= pi / 2",
                  f"implies(abs(z) <= {_TOL}, " + _RT.format(d="1") + ")",
                  f"implies(abs(z) > {_TOL}, result[0] == 0 and result[1] == ite(z > 0, pi / 2, -pi / 2))"])

_RTD = ("eqr(cos(deg2rad(result[0])) * cos(deg2rad(result[1])) * {d}, x) and "
        "eqr(sin(deg2rad(result[0])) * cos(deg2rad(result[1])) * {d}, y) and eqr(sin(deg2rad(result[1])) * {d}, z)")
contract("uxarray.grid.coordinates._xyz_to_lonlat_deg", props=["C04", "C01"],
         params={"x": "real", "y": "real", "z": "real", "normalize": "True"},
         requires=["x != 0 or y != 0 or z != 0"],
         returns="tuple(real, real)", replay=_RP,
         ensures=["-180 <= result[0] and result[0] < 180",
                  "-90 <= result[1] and result[1] <= 90",
                  f"implies(abs(z) <= {_TOL} * {_D}, " + _RTD.format(d=_D) + ")",
                  f"implies(abs(z) > {_TOL} * {_D}, result[0] == 0 and result[1] == ite(z > 0, 90, -90))"])

# ---- the same conversions called with ARRAYS (as the populate functions do): the caller's buffers are never written --------------------
# (the value contract above is proved for a generic element; numpy's in-place operators on array arguments would write through to
# the grid's stored coordinates - an ownership obligation, independent of the values)
for _q in ("_xyz_to_lonlat_rad", "_xyz_to_lonlat_deg", "_normalize_xyz", "_lonlat_rad_to_xyz"):
    _ps = ({"lon": "arr(real, n, owner='caller')", "lat": "arr(real, n, owner='caller')"} if _q == "_lonlat_rad_to_xyz" else
           {"x": "arr(real, n, owner='caller')", "y": "arr(real, n, owner='caller')", "z": "arr(real, n, owner='caller')"})
    contract("uxarray.grid.coordinates." + _q, variant="arrays", props=["C04", "C08", "C19"],
             sizes=["n"], params=_ps, returns="opaque",
             ensures=[f"forall(0, n, lambda i: eqr({a}[i], old({a})[i]))" for a in _ps],
             options={"frames": True, "abstract": True,
                      "callee_variants": {"uxarray.grid.coordinates." + c: "arrays" for c in ("_normalize_xyz", "_xyz_to_lonlat_rad")}})
