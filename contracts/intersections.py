"""Contracts: uxarray/grid/intersections.py (C09 constant-latitude cross-sections)"""
from pyvc.contracts import contract, loop

# an edge is selected iff its end nodes lie strictly on opposite sides of the parallel z = sin(lat)
_OPP = "(edge_node_z[{e}, 0] - sin(deg2rad(lat))) * (edge_node_z[{e}, 1] - sin(deg2rad(lat))) < 0"

contract("uxarray.grid.intersections.fast_constant_lat_intersections", props=["C09"],
         sizes=["n_edge"],
         params={"lat": "real", "edge_node_z": "arr(real, n_edge, 2, space='edge')", "n_edge": "n_edge"},
         returns="arr(int, n_sel)",
         ensures=[
             "forall(0, len(result), lambda t: 0 <= result[t] and result[t] < n_edge and " + _OPP.format(e="result[t]") + ")",
             "forall(0, n_edge, lambda e: implies(" + _OPP.format(e="e") + ", exists(0, len(result), lambda t: result[t] == e)))",
             # no duplicates (the order is not part of the property); independent of the thread schedule because each
             # iteration writes only its own mask cell
             "forall(0, len(result), 0, len(result), lambda t, u: implies(t < u, result[t] != result[u]))",
         ],
         loops={0: loop(counter="k", invariants=[
             # `lat` is rebound to radians inside the function: the invariant speaks about the entry value
             "forall(0, k, lambda e: intersecting_edges_mask[e] == ite(" + _OPP.format(e="e").replace("(lat)", "(old(lat))") + ", 1, 0))",
             "forall(k, n_edge, lambda e: intersecting_edges_mask[e] == 0)",
         ])},
         raises=[("Exception", "False", "only_if")])
