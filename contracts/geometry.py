"""Contracts: uxarray/grid/geometry.py (C13 lat-lon bounds; C15 padding; C03 hole edges)"""
from pyvc.contracts import contract, loop, inline

inline("uxarray.utils.computing.isclose", "uxarray.utils.computing.allclose", "uxarray.utils.computing.all")

# ---------------------------------------------------------------------------------------------
# _get_latlonbox_width: eastward width of the longitude interval, in [0, 2pi]
# ---------------------------------------------------------------------------------------------
contract(
    "uxarray.grid.geometry._get_latlonbox_width",
    props=["C13"],
    params={"latlonbox_rad": "small(real, 2, 2)"},
    requires=[
        "latlonbox_rad[1][0] != FILL and latlonbox_rad[1][1] != FILL",
    ],
    returns="real",
    ensures=[
        # from the property: the width is the length of the eastward interval lon0 -> lon1
        "0 <= result and result <= 2 * pi",
        "result == lonwidth(fmod(latlonbox_rad[1][0], 2 * pi), fmod(latlonbox_rad[1][1], 2 * pi))",
        # going east by `result` from lon0 arrives at lon1
        "implies(fmod(latlonbox_rad[1][0], 2*pi) <= fmod(latlonbox_rad[1][1], 2*pi),"
        "        fmod(latlonbox_rad[1][0], 2*pi) + result == fmod(latlonbox_rad[1][1], 2*pi))",
        "implies(fmod(latlonbox_rad[1][0], 2*pi) > fmod(latlonbox_rad[1][1], 2*pi),"
        "        fmod(latlonbox_rad[1][0], 2*pi) + result == fmod(latlonbox_rad[1][1], 2*pi) + 2*pi)",
    ],
    raises=[("Exception", "False", "only_if")],
)

# ---------------------------------------------------------------------------------------------
# _insert_pt_in_latlonbox (periodic longitude): the new box contains the old box and the point
# ---------------------------------------------------------------------------------------------
_UNSET_LAT = "(old_box[0][0] == FILL and old_box[0][1] == FILL)"
_UNSET_LON = "(old_box[1][0] == FILL and old_box[1][1] == FILL)"
_ALLFILL = "(new_pt[0] == FILL and new_pt[1] == FILL)"
_NORTH = "(new_pt[1] == FILL and isclose_(new_pt[0], 0.5 * pi, ERROR_TOLERANCE))"
_SOUTH = "(new_pt[1] == FILL and isclose_(new_pt[0], -0.5 * pi, ERROR_TOLERANCE))"
_POLE = f"({_NORTH} or {_SOUTH})"
_M = "fmod(new_pt[1], 2 * pi)"

contract(
    "uxarray.grid.geometry._insert_pt_in_latlonbox",
    props=["C13"],
    params={"old_box": "small(real, 2, 2)", "new_pt": "small(real, 2)"},
    ghost_params={"y": "real"},
    requires=[
        # the point is all-fill (dummy), a pole marker (lon = FILL), or a real point
        f"{_ALLFILL} or (-pi / 2 <= new_pt[0] and new_pt[0] <= pi / 2)",
        f"implies(new_pt[1] == FILL, {_ALLFILL} or {_POLE})",
        # box rows are unset or well-formed
        f"{_UNSET_LAT} or (old_box[0][0] <= old_box[0][1] and old_box[0][0] != FILL and old_box[0][1] != FILL)",
        f"{_UNSET_LON} or (0 <= old_box[1][0] and old_box[1][0] < 2 * pi and 0 <= old_box[1][1] and old_box[1][1] < 2 * pi)",
        "0 <= y and y <= 2 * pi",
    ],
    returns="small(real, 2, 2)",
    ensures=[
        f"implies({_ALLFILL}, result[0][0] == old_box[0][0] and result[0][1] == old_box[0][1] and "
        "result[1][0] == old_box[1][0] and result[1][1] == old_box[1][1])",
        # pole marker: only the latitude bound moves, longitude untouched
        f"implies(not {_ALLFILL} and {_NORTH}, result[0][1] == pi / 2)",
        f"implies(not {_ALLFILL} and {_SOUTH}, result[0][0] == 0 - pi / 2)",
        # ... and the OTHER latitude bound collected so far is kept
        f"implies(not {_ALLFILL} and {_NORTH} and not {_UNSET_LAT}, result[0][0] == old_box[0][0])",
        f"implies(not {_ALLFILL} and {_SOUTH} and not {_UNSET_LAT}, result[0][1] == old_box[0][1])",
        f"implies(not {_ALLFILL} and {_POLE} and not {_UNSET_LON}, result[1][0] == old_box[1][0] and result[1][1] == old_box[1][1])",
        # ordinary point: latitude enclosure (point and old interval) and tightness
        f"implies(not {_ALLFILL} and not {_POLE}, result[0][0] <= new_pt[0] and new_pt[0] <= result[0][1])",
        f"implies(not {_ALLFILL} and not {_POLE} and not {_UNSET_LAT}, result[0][0] <= old_box[0][0] and old_box[0][1] <= result[0][1])",
        f"implies(not {_ALLFILL} and not {_POLE}, result[0][0] == ite({_UNSET_LAT}, new_pt[0], min(old_box[0][0], new_pt[0])))",
        f"implies(not {_ALLFILL} and not {_POLE}, result[0][1] == ite({_UNSET_LAT}, new_pt[0], max(old_box[0][1], new_pt[0])))",
        # ordinary point: longitude enclosure of the point ...
        f"implies(not {_ALLFILL} and not {_POLE}, inlon(result[1][0], result[1][1], {_M}))",
        # ... and of every longitude of the old interval (y is universally quantified)
        f"implies(not {_ALLFILL} and not {_POLE} and not {_UNSET_LON} and inlon(old_box[1][0], old_box[1][1], y), inlon(result[1][0], result[1][1], y))",
        # the interval only ever grows by moving one end to the point
        f"implies(not {_ALLFILL} and not {_POLE} and not {_UNSET_LON}, "
        f"(result[1][0] == old_box[1][0] and result[1][1] == old_box[1][1]) or "
        f"(result[1][0] == {_M} and result[1][1] == old_box[1][1]) or "
        f"(result[1][0] == old_box[1][0] and result[1][1] == {_M}))",
        # of the two candidate extensions the narrower is taken
        f"implies(not {_ALLFILL} and not {_POLE} and not {_UNSET_LON} and not inlon(old_box[1][0], old_box[1][1], {_M}), "
        f"lonwidth(result[1][0], result[1][1]) <= lonwidth({_M}, old_box[1][1]) and "
        f"lonwidth(result[1][0], result[1][1]) <= lonwidth(old_box[1][0], {_M}))",
        # result row stays well-formed (needed by the next insertion)
        f"implies(not {_ALLFILL} and not {_POLE}, 0 <= result[1][0] and result[1][0] < 2*pi and 0 <= result[1][1] and result[1][1] < 2*pi)",
        f"implies(not {_ALLFILL} and not {_POLE}, result[0][0] <= result[0][1])",
    ],
    raises=[("Exception", "False", "only_if")],
)

# ---------------------------------------------------------------------------------------------
# _construct_hole_edge_indices: exactly the edges with a single adjacent face (C03)
# ---------------------------------------------------------------------------------------------
contract(
    "uxarray.grid.geometry._construct_hole_edge_indices", props=["C03"],
    sizes=["n_edge"],
    params={"edge_face_connectivity": "arr(int, n_edge, 2, space='edge', vspace='face')"},
    returns="arr(int, n_holes)",
    ensures=[
        "forall(0, len(result), lambda t: 0 <= result[t] and result[t] < n_edge and edge_face_connectivity[result[t], 1] == FILL)",
        "forall(0, n_edge, lambda e: implies(edge_face_connectivity[e, 1] == FILL, exists(0, len(result), lambda t: result[t] == e)))",
        # "exactly the edges": each once (the order is not part of the property)
        "forall(0, len(result), 0, len(result), lambda t, u: implies(t < u, result[t] != result[u]))",
    ],
    raises=[("Exception", "False", "only_if")],
)

# ---------------------------------------------------------------------------------------------
# _pad_closed_face_nodes: row i = its corners followed by copies of the first corner (C15)
# ---------------------------------------------------------------------------------------------
_PADROW = "ite(j < n_nodes_per_face[i], face_node_connectivity[i, j], face_node_connectivity[i, 0])"
contract(
    "uxarray.grid.geometry._pad_closed_face_nodes", props=["C15"],
    sizes=["n_face", "n_max_face_nodes"],
    params={"face_node_connectivity": "arr(int, n_face, n_max_face_nodes, space='face', vspace='node')",
            "n_face": "n_face", "n_max_face_nodes": "n_max_face_nodes",
            "n_nodes_per_face": "arr(int, n_face, space='face')"},
    requires=["forall(0, n_face, lambda i: 1 <= n_nodes_per_face[i] and n_nodes_per_face[i] <= n_max_face_nodes)"],
    returns="arr(int, n_face, n_max_face_nodes + 1)",
    ensures=["shape(result) == (n_face, n_max_face_nodes + 1)",
             # from the property: each polygon's vertices are its face's corners in order (then closed with the first corner)
             f"forall(0, n_face, 0, n_max_face_nodes + 1, lambda i, j: result[i, j] == {_PADROW})",
             "owner_is(result, 'fresh')"],
    loops={0: loop(counter="k", invariants=[
        f"forall(0, k, 0, n_max_face_nodes + 1, lambda i, j: closed[i, j] == {_PADROW})",
        "forall(k, n_face, 0, n_max_face_nodes, lambda i, j: closed[i, j] == face_node_connectivity[i, j])",
    ])},
    raises=[("Exception", "False", "only_if")],
)
