"""Contract: uxarray/io/_exodus.py:_read_exodus (C07 round trip / C01: node positions read back are the stored directions)"""
from pyvc.contracts import contract

_C = "uxarray.grid.coordinates."
_K = "uxarray.grid.connectivity."
for _layout, _vars in (("coordxyz", ("coordx", "coordy", "coordz", "connect1")), ("coordxyz2", ("coordx", "coordy", "coordz", "connect1", "connect2"))):
    _X, _Y, _Z = (f"entry(result[0].vars, 'node_{c}').values" for c in "xyz")
    _LL = f"summary('{_C}_xyz_to_lonlat_deg', {_X}, {_Y}, {_Z}, True)"
    contract("uxarray.io._exodus._read_exodus", props=["C07", "C01"], variant=_layout,
             params={"ext_ds": f"obj('Dataset', owner='caller', closed=True, opaque_vars={_vars!r}, "
                               f"dim_sizes={{'num_dim': 3, 'num_nod_per_el1': 'opaque', 'num_nod_per_el2': 'opaque', 'num_nodes': 'opaque'}})"},
             returns="opaque",
             ensures=["is_tuple(result)",
                      "has(result[0].vars, 'node_lon') and has(result[0].vars, 'node_lat') and has(result[0].vars, 'face_node_connectivity')",
                      # node positions: the stored Cartesian coordinates as they are, and lon/lat of THEIR DIRECTION (normalised first:
                      # Exodus files written from kilometre-radius sources are not on the unit sphere)
                      "same(entry(result[0].vars, 'node_x').data, entry(ext_ds.vars, 'coordx'))",
                      "same(entry(result[0].vars, 'node_y').data, entry(ext_ds.vars, 'coordy'))",
                      "same(entry(result[0].vars, 'node_z').data, entry(ext_ds.vars, 'coordz'))",
                      f"same(entry(result[0].vars, 'node_lon').data, item({_LL}, 0))",
                      f"same(entry(result[0].vars, 'node_lat').data, item({_LL}, 1))"],
             options={"abstract": True, "frames": True, "summaries": [_C + "_xyz_to_lonlat_deg", _K + "_replace_fill_values"]},
             # a file whose blocks are wider than its widest declared block is rejected
             raises=[("RuntimeError", "True", "only_if")])
