"""Contracts: Grid.__eq__ / __ne__ (C20)"""
from pyvc.contracts import contract

_PROP = "attr(self, '{0}')"
for _name in ("node_lon", "node_lat", "face_node_connectivity"):
    # property reads are deterministic functions of the grid (established under C08); assumed here
    contract(f"uxarray.grid.grid.Grid.{_name}", variant="attr_view", trusted=True, props=["C20"],
             params={"self": "obj('Grid')"}, returns="opaque('DataArray')",
             ensures=[f"same_object(result, attr(self, '{_name}'))"])

# from the property sentence: equal iff same format and identical node_lon, node_lat, face_node_connectivity
_VIEW = {"callee_variants": {f"uxarray.grid.grid.Grid.{_n}": "attr_view" for _n in ("node_lon", "node_lat", "face_node_connectivity")}}
_EQ = ("(isinstance_of(other, 'Grid') and self.source_grid_spec == attr(other, 'source_grid_spec')"
       " and da_equals(attr(self, 'node_lon'), attr(other, 'node_lon'))"
       " and da_equals(attr(self, 'node_lat'), attr(other, 'node_lat'))"
       " and da_equals(attr(self, 'face_node_connectivity'), attr(other, 'face_node_connectivity')))")

contract("uxarray.grid.grid.Grid.__eq__", props=["C20"],
         params={"self": "obj('Grid')", "other": "opaque"},
         returns="bool",
         ensures=[f"iff(result, {_EQ})",
                  "implies(not isinstance_of(other, 'Grid'), not result)"],
         options=_VIEW)

contract("uxarray.grid.grid.Grid.__ne__", props=["C20"],
         params={"self": "obj('Grid')", "other": "opaque"},
         returns="bool",
         ensures=[f"iff(result, not {_EQ})"],
         # abstract mode: anything else the method might consult (dimension sizes, derived tables, caches) is state that two equal
         # grids need not share - an uninterpreted function of the grid object
         options={**_VIEW, "abstract": True, "summaries": ["uxarray.grid.grid.Grid.sizes", "uxarray.grid.grid.Grid.dims"]})
