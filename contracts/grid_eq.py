"""Contracts: Grid.__eq__ / __ne__ (C20)"""
from pyvc.contracts import contract

_PROP = "attr(self, '{0}')"
for _name in ("node_lon", "node_lat", "face_node_connectivity"):
    # property reads are deterministic functions of the grid (established under C08); assumed here
    contract(f"uxarray.grid.grid.Grid.{_name}", variant="attr_view", trusted=True, props=["C20"],
             params={"self": "obj('Grid')"}, returns="opaque('DataArray')",
             ensures=[f"same_object(result, attr(self, '{_name}'))"])

# from the property sentence: equal iff same format and identical node_lon, node_lat, face_node_connectivity
_VIEW = {"callee_variants": {f"uxarray.grid.grid.Grid.{_n}": "attr_view" for _n in ("node_lon", "node_lat", "face_node_connectivity")}}
_EQ = ("(isinstance_of(other, 'Grid') and self.source_grid_spec == attr(other, 'source_grid_spec')"
       " and da_equals(attr(self, 'node_lon'), attr(other, 'node_lon'))"
       " and da_equals(attr(self, 'node_lat'), attr(other, 'node_lat'))"
       " and da_equals(attr(self, 'face_node_connectivity'), attr(other, 'face_node_connectivity')))")

contract("uxarray.grid.grid.Grid.__eq__", props=["C20"],
         params={"self": "obj('Grid')", "other": "opaque"},
         returns="bool",
         ensures=[f"iff(result, {_EQ})",
                  "implies(not isinstance_of(other, 'Grid'), not result)"],
         options=_VIEW)

contract("uxarray.grid.grid.Grid.__ne__", props=["C20"],
         params={"self": "obj('Grid')", "other": "opaque"},
         returns="bool",
         ensures=[f"iff(result, not {_EQ})"],
         # abstract mode: anything else the method might consult (dimension sizes, derived tables, caches) is state that two equal
         # grids need not share - an uninterpreted function of the grid object
         options={**_VIEW, "abstract": True, "summaries": ["uxarray.grid.grid.Grid.sizes", "uxarray.grid.grid.Grid.dims"]})

# "stem from the same format": the format a grid stems from is the one named when it was constructed, whatever the dataset handed
# in carries from an earlier owner (labels in its attrs included) - Grid.__init__ records exactly the constructor argument
contract("uxarray.grid.grid.Grid.__init__", props=["C20"], variant="format",
         sizes=["n_node", "n_edge", "n_face"],
         # the longitude wrap at the end of __init__ is used through its own contract (contracts/lonrange.py), on a dataset of that shape
         params={"self": "obj('Grid')", "grid_ds": "obj('Dataset', owner='self', ds_attrs=True, vars={'node_lon': \"arr(real, n_node, owner='caller')\", "
                                                   "'edge_lon': \"arr(real, n_edge, owner='caller')\", 'face_lon': \"arr(real, n_face, owner='caller')\"})", "source_grid_spec": "optional(opaque('str'))", "source_dims_dict": "opaque"},
         returns="none",
         ensures=["same(self.source_grid_spec, source_grid_spec)"],
         raises=[("ValueError", "True", "only_if")],   # a dataset that is not a minimum UGRID grid is refused
         # the minimum-UGRID validator is a pure predicate of the dataset (summarised as an uninterpreted function of it)
         options={"abstract": True, "summaries": ["uxarray.io._ugrid._validate_minimum_ugrid"]})
