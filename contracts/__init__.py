"""Sidecar contracts for uxarray functions (never written into /repo)."""
