"""Contracts: plumbing of node coordinates between the Grid properties and the proved conversion functions (C04, C08).

The conversions themselves are proved in contracts/coordinates.py (elementwise, real arithmetic) and the wrap of longitudes in
contracts/lonrange.py; here the obligations are about the dataflow: which conversion is applied to which of THIS grid's arrays,
under which name the result is stored, that longitudes constructed on demand are wrapped whichever property is read first, and
that nothing else in the grid's dataset is touched.  Library calls and the conversions are summarised (abstract mode)."""
from pyvc.contracts import contract, inline

_C = "uxarray.grid.coordinates."
_G = "uxarray.grid.grid.Grid."
_OPT = {"frames": True, "abstract": True, "summaries": [_C + "_xyz_to_lonlat_rad", _C + "_lonlat_rad_to_xyz"],
        "callee_variants": {_C + "_set_desired_longitude_range": "plumbing"}}


def _e(k, g="grid"):
    return f"entry({g}._ds, '{k}')"


# abstraction of the proved wrap (contracts/lonrange.py) for callers: the same DataArray objects, longitudes replaced by wrap180(.)
contract(_C + "_set_desired_longitude_range", variant="plumbing", trusted=True, props=["C04"],
         params={"ds": "opaque"}, returns="none",
         modifies=["ds['node_lon'].data", "ds['edge_lon'].data", "ds['face_lon'].data"],
         ensures=[f"implies(has(ds, '{k}'), same(entry(ds, '{k}').data, uf('wrap180', old(entry(ds, '{k}').data))))"
                  for k in ("node_lon", "edge_lon", "face_lon")] + ["ds_frame(ds, old(ds), [])"],
         notes="caller-side abstraction of _set_desired_longitude_range: wrap180 is the elementwise map proved for the real function")

inline(_G + "node_x", _G + "node_y", _G + "node_z")   # node_lon / node_lat have their own contracts below

_XYZ = ", ".join(f"{_e(k)}.values" for k in ("node_x", "node_y", "node_z"))
_LL_RAD = f"summary('{_C}_xyz_to_lonlat_rad', {_XYZ}, True)"
contract(_C + "_populate_node_latlon", props=["C04", "C08", "C20"],
         params={"grid": "obj('Grid', attrs='dict')"}, returns="none",
         requires=["has(grid._ds, 'node_x') and has(grid._ds, 'node_y') and has(grid._ds, 'node_z')"],
         ensures=["has(grid._ds, 'node_lon') and has(grid._ds, 'node_lat')",
                  # degrees of the (lon, lat) of the direction of this grid's own Cartesian node positions (normalised first)
                  f"same({_e('node_lon')}.data, lib('numpy.rad2deg', item({_LL_RAD}, 0)))",
                  f"same({_e('node_lat')}.data, lib('numpy.rad2deg', item({_LL_RAD}, 1)))",
                  "ds_frame(grid._ds, old(grid._ds), ['node_lon', 'node_lat'])"],
         modifies=["grid._ds['node_lon']", "grid._ds['node_lat']"],
         options=_OPT, raises=[("Exception", "False", "only_if")])

_XYZ_OF = (f"summary('{_C}_lonlat_rad_to_xyz', lib('numpy.deg2rad', {_e('node_lon')}.values), "
           f"lib('numpy.deg2rad', {_e('node_lat')}.values))")
contract(_C + "_populate_node_xyz", props=["C04", "C08"],
         params={"grid": "obj('Grid', attrs='dict')"}, returns="none",
         requires=["has(grid._ds, 'node_lon') and has(grid._ds, 'node_lat')"],
         ensures=["has(grid._ds, 'node_x') and has(grid._ds, 'node_y') and has(grid._ds, 'node_z')"]
         + [f"same({_e(k)}.data, item({_XYZ_OF}, {i}))" for i, k in enumerate(("node_x", "node_y", "node_z"))]
         + ["ds_frame(grid._ds, old(grid._ds), ['node_x', 'node_y', 'node_z'])"],
         modifies=["grid._ds['node_x']", "grid._ds['node_y']", "grid._ds['node_z']"],
         options=_OPT, raises=[("Exception", "False", "only_if")])

# Grid.node_lon / Grid.node_lat: whichever is read first, a longitude constructed on demand is wrapped into [-180, 180)
_XYZs = _XYZ.replace("grid._ds", "self._ds")
_LL_RADs = _LL_RAD.replace("grid._ds", "self._ds")
for _p in ("node_lon", "node_lat"):
    contract(_G + _p, props=["C04", "C08", "C20"],
             params={"self": "obj('Grid', attrs='dict')"}, returns="opaque",
             # the grid has node positions in at least one form
             requires=["(has(self._ds, 'node_lon') and has(self._ds, 'node_lat')) or "
                       "(has(self._ds, 'node_x') and has(self._ds, 'node_y') and has(self._ds, 'node_z') and "
                       "not has(self._ds, 'node_lon') and not has(self._ds, 'node_lat'))"],
             ensures=[f"has(self._ds, '{_p}')", f"same(result, {_e(_p, 'self')})", f"same(result.values, {_e(_p, 'self')}.values)",
                      # a supplied coordinate is returned as it is
                      f"implies(old(has(self._ds, '{_p}')), same({_e(_p, 'self')}, old({_e(_p, 'self')})) and "
                      f"same({_e(_p, 'self')}.data, old({_e(_p, 'self')}.data)))",
                      # constructed ones: longitude wrapped, latitude as converted
                      f"implies(not old(has(self._ds, '{_p}')), same({_e('node_lon', 'self')}.data, "
                      f"uf('wrap180', lib('numpy.rad2deg', item({_LL_RADs}, 0)))) and "
                      f"same({_e('node_lat', 'self')}.data, lib('numpy.rad2deg', item({_LL_RADs}, 1))))",
                      "ds_frame(self._ds, old(self._ds), ['node_lon', 'node_lat'])"],
             options=_OPT, raises=[("Exception", "False", "only_if")])


# ---- face centres constructed on request (Grid.construct_face_centers) --------------------------------------------------------------
# Whatever method produced the (lon, lat) of the centres, the Cartesian centres stored next to them are the same directions:
# face_xyz == _lonlat_rad_to_xyz(deg2rad(face_lon), deg2rad(face_lat))
inline(_G + "n_nodes_per_face")
_FXYZ = (f"summary('{_C}_lonlat_rad_to_xyz', lib('numpy.deg2rad', {_e('face_lon')}.data), "
         f"lib('numpy.deg2rad', {_e('face_lat')}.data))")
contract(_C + "_populate_face_centerpoints", props=["C04"],
         params={"grid": "obj('Grid', attrs='dict')", "repopulate": "True"}, returns="none",
         requires=["has(grid._ds, 'node_lon') and has(grid._ds, 'node_lat') and has(grid._ds, 'face_node_connectivity') and "
                   "has(grid._ds, 'n_nodes_per_face')"],
         ensures=["has(grid._ds, 'face_lon') and has(grid._ds, 'face_lat') and has(grid._ds, 'face_x') and has(grid._ds, 'face_y') "
                  "and has(grid._ds, 'face_z')"]
         + [f"same({_e(k)}.data, item({_FXYZ}, {i}))" for i, k in enumerate(("face_x", "face_y", "face_z"))]
         + ["ds_frame(grid._ds, old(grid._ds), ['face_lon', 'face_lat', 'face_x', 'face_y', 'face_z'])"],
         options={**_OPT, "summaries": _OPT["summaries"] + [_C + "_construct_face_centerpoints"],
                  "callee_variants": {**_OPT["callee_variants"], _G + "face_node_connectivity": "ds_view"}},
         raises=[("Exception", "False", "only_if")])


# ---- face / edge centroids: three provenance branches (C04) -----------------------------------------------------------------------
inline(*[_G + f"{k}_{c}" for k in ("face", "edge") for c in ("x", "y", "z")], _G + "edge_node_connectivity")


def _items(expr, n):
    return [f"item({expr}, {i})" for i in range(n)]


def _centroid_contract(kind, builder, builder_args, needs):
    X, Y, Z, LON, LAT = (f"{_e(f'{kind}_{c}')}.data" for c in ("x", "y", "z", "lon", "lat"))
    ll_of_xyz = f"summary('{_C}_xyz_to_lonlat_deg', {X}, {Y}, {Z}, True)"
    xyz_of_ll = f"summary('{_C}_lonlat_rad_to_xyz', lib('numpy.deg2rad', {LON}), lib('numpy.deg2rad', {LAT}))"
    # the two representations stored on the grid denote the same points: one was computed from the other with the proved conversions
    cons = (f"((same({LON}, item({ll_of_xyz}, 0)) and same({LAT}, item({ll_of_xyz}, 1))) or "
            f"(same({X}, item({xyz_of_ll}, 0)) and same({Y}, item({xyz_of_ll}, 1)) and same({Z}, item({xyz_of_ll}, 2))))")
    mean = f"summary('{_C}{builder}', " + ", ".join(f"{_e(a)}.values" for a in builder_args) + ")"
    names = [f"{kind}_{c}" for c in ("lon", "lat", "x", "y", "z")]
    h = lambda n: f"has(grid._ds, '{n}')"          # noqa: E731
    contract(_C + f"_populate_{kind}_centroids", props=["C04", "C08"],
             params={"grid": "obj('Grid', attrs='dict')", "repopulate": "bool"}, returns="none",
             requires=[" and ".join(h(n) for n in needs),
                       # centres come as complete sets: lon with lat, x with y and z
                       f"{h(kind + '_lon')} == {h(kind + '_lat')}",
                       f"{h(kind + '_x')} == {h(kind + '_y')} and {h(kind + '_x')} == {h(kind + '_z')}"],
             ensures=[" and ".join(h(n) for n in names),
                      # (when the source supplied both forms and nothing is recomputed, their agreement is the source's business)
                      f"implies(not (old({h(kind + '_lon')}) and old({h(kind + '_x')}) and not repopulate), {cons})",
                      # no centres supplied at all: the normalised mean of the corner unit vectors, computed by the builder from THIS
                      # grid's node positions and tables
                      f"implies(not old({h(kind + '_lon')}) and not old({h(kind + '_x')}), "
                      + " and ".join(f"same({v}, {it})" for v, it in zip((X, Y, Z), _items(mean, 3))) + ")",
                      # supplied centres are kept as they are (unless recomputation was requested)
                      f"implies(old({h(kind + '_lon')}) and not repopulate, same({_e(kind + '_lon')}, old({_e(kind + '_lon')})) and "
                      f"same({_e(kind + '_lat')}, old({_e(kind + '_lat')})))",
                      f"implies(old({h(kind + '_x')}), same({X}, old({X})) and same({Y}, old({Y})) and same({Z}, old({Z})))",
                      f"ds_frame(grid._ds, old(grid._ds), {names!r})"],
             modifies=[f"grid._ds['{k}']" for k in names],
             options={**_OPT, "summaries": _OPT["summaries"] + [_C + builder, _C + "_xyz_to_lonlat_deg"],
                      "callee_variants": {**_OPT["callee_variants"], _G + "face_node_connectivity": "ds_view"}},
             raises=[("Exception", "False", "only_if")])


_centroid_contract("face", "_construct_face_centroids", ("node_x", "node_y", "node_z", "face_node_connectivity", "n_nodes_per_face"),
                   ("node_x", "node_y", "node_z", "face_node_connectivity", "n_nodes_per_face"))
_centroid_contract("edge", "_construct_edge_centroids", ("node_x", "node_y", "node_z", "edge_node_connectivity"),
                   ("node_x", "node_y", "node_z", "edge_node_connectivity"))

# Grid.face_lon / face_lat / edge_lon / edge_lat: a longitude constructed on demand is wrapped, whichever property is read first
for _kind in ("face", "edge"):
    for _c in ("lon", "lat"):
        _p = f"{_kind}_{_c}"
        _L = f"{_kind}_lon"
        contract(_G + _p, props=["C04", "C08"],
                 params={"self": "obj('Grid', attrs='dict')"}, returns="opaque",
                 requires=[" and ".join(f"has(self._ds, '{n}')" for n in
                                        (("node_x", "node_y", "node_z", "face_node_connectivity", "n_nodes_per_face") if _kind == "face"
                                         else ("node_x", "node_y", "node_z", "edge_node_connectivity"))),
                           f"has(self._ds, '{_kind}_lon') == has(self._ds, '{_kind}_lat')",
                           f"has(self._ds, '{_kind}_x') == has(self._ds, '{_kind}_y') and has(self._ds, '{_kind}_x') == has(self._ds, '{_kind}_z')"],
                 ensures=[f"has(self._ds, '{_p}')", f"same(result, {_e(_p, 'self')})", f"same(result.values, {_e(_p, 'self')}.values)",
                          # a longitude that had to be constructed is reported wrapped: there is an unwrapped array w (what the
                          # populate step stored) with lon == wrap180(w)
                          f"implies(not old(has(self._ds, '{_p}')), same({_e(_L, 'self')}.data, uf('wrap180', ghost_unwrapped)))",
                          f"ds_frame(self._ds, old(self._ds), {[f'{_kind}_{c}' for c in ('lon', 'lat', 'x', 'y', 'z')]!r})"],
                 asserts={f"before:if '{_p}' not in self._ds:": ["let ghost_unwrapped = None"],
                          f"after:_populate_{_kind}_centroids(self)": [f"let ghost_unwrapped = {_e(_L, 'self')}.data"]},
                 options={**_OPT, "callee_variants": {**_OPT["callee_variants"], _G + "face_node_connectivity": "ds_view"}},
                 raises=[("Exception", "False", "only_if")])
