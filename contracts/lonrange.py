"""Contract: coordinates._set_desired_longitude_range (C04 "all longitudes are reported in [-180, 180]", C01 reader post-condition)"""
from pyvc.contracts import contract

# the array buffers may be the caller's own (xarray wraps numpy arrays without copying): owner 'caller'
_VARS = {"node_lon": "arr(real, n_node, owner='caller')", "edge_lon": "arr(real, n_edge, owner='caller')", "face_lon": "arr(real, n_face, owner='caller')"}
_cl = []
for _v, _n in (("node_lon", "n_node"), ("edge_lon", "n_edge"), ("face_lon", "n_face")):
    _new = f"entry(ds.vars, '{_v}').data"
    _old = f"old(entry(ds.vars, '{_v}').data)"
    # every longitude keeps its meaning (same angle modulo 360) ...
    _cl.append(f"forall(0, {_n}, lambda i: eqr({_new}[i], {_old}[i]) or eqr({_new}[i], fmod({_old}[i] + 180, 360) - 180))")
    # ... and if anything was above 180 the whole variable ends up in [-180, 180)
    _cl.append(f"forall(0, {_n}, lambda i: implies(exists(0, {_n}, lambda k: {_old}[k] > 180), -180 <= {_new}[i] and {_new}[i] < 180))")
    # values already in range are left exactly as they were
    _cl.append(f"forall(0, {_n}, lambda i: implies(not exists(0, {_n}, lambda k: {_old}[k] > 180), eqr({_new}[i], {_old}[i])))")

contract("uxarray.grid.coordinates._set_desired_longitude_range", props=["C04", "C01", "C19", "C20"],
         sizes=["n_node", "n_edge", "n_face"],
         # the dataset is the Grid's own (owner 'self'): its variables may be re-bound; the ARRAYS are never written in place
         params={"ds": f"obj('Dataset', owner='self', vars={_VARS!r})"},
         returns="none",
         ensures=_cl,
         options={"frames": True},
         raises=[("Exception", "False", "only_if")])
