"""Contracts: fill-value / index-base standardisation (C01 standard form; C19 inputs untouched)"""
from pyvc.contracts import contract

# integer tables, integer fill: the instantiation every reader uses for connectivity
contract("uxarray.grid.connectivity._replace_fill_values", props=["C01", "C19"],
         sizes=["n", "W"],
         params={"grid_var": "arr(int, n, W, owner='caller')", "original_fill": "optional(int)", "new_fill": "int",
                 "new_dtype": "dtype('int64')"},
         requires=["INT_MIN <= new_fill and new_fill <= INT_MAX"],
         returns="arr(int, n, W)",
         ensures=["shape(result) == (n, W)",
                  "forall(0, n, 0, W, lambda f, j: result[f, j] == ite(not isnone(original_fill) and old(grid_var)[f, j] == original_fill, "
                  "new_fill, old(grid_var)[f, j]))",
                  # C19: the caller's array is left as it was, the result is new storage
                  "forall(0, n, 0, W, lambda f, j: grid_var[f, j] == old(grid_var)[f, j])",
                  "owner_is(result, 'fresh')"],
         options={"frames": True},
         raises=[("Exception", "False", "only_if")])

contract("uxarray.io._topology._process_connectivity", props=["C01", "C19", "C20"],
         sizes=["n", "W"],
         params={"conn": "arr(int, n, W, owner='caller')", "orig_fv": "optional(int)", "start_index": "int"},
         requires=[
             # well-formed source: the standard fill value does not occur as a real index
             "forall(0, n, 0, W, lambda f, j: conn[f, j] != FILL or (not isnone(orig_fv) and orig_fv == FILL))",
             "isnone(orig_fv) or (INT_MIN <= orig_fv and orig_fv <= INT_MAX)"],
         returns="arr(int, n, W)",
         ensures=["shape(result) == (n, W)",
                  # from the property: zero-based indices, padding = the single standard fill value
                  "forall(0, n, 0, W, lambda f, j: result[f, j] == ite(not isnone(orig_fv) and old(conn)[f, j] == orig_fv, FILL, "
                  "old(conn)[f, j] - start_index))",
                  "forall(0, n, 0, W, lambda f, j: conn[f, j] == old(conn)[f, j])",
                  "owner_is(result, 'fresh')", "dtype_is(result, 'int64')"],
         options={"frames": True},
         raises=[("Exception", "False", "only_if")])
