"""Contracts: the `_populate_*` plumbing between Grid properties and the connectivity builders (C02, C03, C08).

The builders' own value contracts are in contracts/connectivity.py; here the obligations are about WHERE results are stored:
on the grid's own dataset, under the right name, and never into module-level constant dictionaries shared by every grid."""
from pyvc.contracts import contract, inline

_G = "uxarray.grid.grid.Grid."
# read-only accessors of the grid (assumed: they return what the grid's dataset holds and store nothing)
for _p in ("n_face", "n_max_face_nodes", "n_node", "n_edge"):
    contract(_G + _p, trusted=True, props=["C02", "C03"], params={"self": "obj('Grid')"}, returns="opaque",
             ensures=[f"same(result, uf('{_p}', src(self)))"], notes="dimension size read from the grid's dataset (assumed)")
contract(_G + "face_node_connectivity", trusted=True, props=["C02", "C03"], params={"self": "obj('Grid')"}, returns="opaque",
         requires=["has(self._ds, 'face_node_connectivity')"],
         ensures=["same(result, entry(self._ds, 'face_node_connectivity'))", "same(result.values, entry(self._ds, 'face_node_connectivity').values)"],
         notes="returns the dataset's variable (the 1-D single-face reshape branch is not modelled)")

_K = "uxarray.grid.connectivity."

contract(_K + "_build_edge_node_connectivity", trusted=True, props=["C02"],
         params={"face_nodes": "opaque", "n_face": "opaque", "n_max_face_nodes": "opaque"},
         returns="tuple(opaque, opaque, opaque)",
         ensures=["same(result[0], uf('edge_nodes', face_nodes))",
                  "same(result[1], uf('edge_inverse', face_nodes))",
                  "same(result[2], uf('edge_fill_mask', face_nodes))"],
         notes="np.unique pipeline: value contract assumed here (bounded stand-in `edges` exercises it)")

contract(_K + "_populate_edge_node_connectivity", props=["C02", "C08"],
         params={"grid": "obj('Grid')"},
         returns="none",
         requires=["has(grid._ds, 'face_node_connectivity')"],
         ensures=["has(grid._ds, 'edge_node_connectivity')",
                  "same(entry(grid._ds, 'edge_node_connectivity').data, uf('edge_nodes', entry(grid._ds, 'face_node_connectivity').values))",
                  "same(entry(grid._ds, 'edge_node_connectivity').attrs['inverse_indices'], "
                  "uf('edge_inverse', entry(grid._ds, 'face_node_connectivity').values))"],
         options={"frames": True},
         raises=[("Exception", "False", "only_if")])
