"""Contracts: the `_populate_*` plumbing between Grid properties and the connectivity builders (C02, C03, C08).

The builders' own value contracts are in contracts/connectivity.py; here the obligations are about WHERE results are stored:
on the grid's own dataset, under the right name, and never into module-level constant dictionaries shared by every grid."""
from pyvc.contracts import contract, inline

_G = "uxarray.grid.grid.Grid."
# read-only accessors of the grid (assumed: they return what the grid's dataset holds and store nothing)
for _p in ("n_max_face_nodes",):
    contract(_G + _p, variant="ds_view", trusted=True, props=["C02", "C03"], params={"self": "obj('Grid')"}, returns="opaque",
             ensures=[f"same(result, uf('{_p}', src(self)))"], notes="dimension size read from the grid's dataset (assumed)")
contract(_G + "face_node_connectivity", variant="ds_view", trusted=True, props=["C02", "C03"], params={"self": "obj('Grid')"}, returns="opaque",
         requires=["has(self._ds, 'face_node_connectivity')"],
         ensures=["same(result, entry(self._ds, 'face_node_connectivity'))", "same(result.values, entry(self._ds, 'face_node_connectivity').values)"],
         notes="returns the dataset's variable (the 1-D single-face reshape branch is not modelled)")

_K = "uxarray.grid.connectivity."
_VIEW = {"callee_variants": {"uxarray.grid.grid.Grid.face_node_connectivity": "ds_view", "uxarray.grid.grid.Grid.n_max_face_nodes": "ds_view"}}

contract(_K + "_build_edge_node_connectivity", trusted=True, props=["C02"],
         params={"face_nodes": "opaque", "n_face": "opaque", "n_max_face_nodes": "opaque"},
         returns="tuple(opaque, opaque, opaque)",
         ensures=["same(result[0], uf('edge_nodes', face_nodes))",
                  "same(result[1], uf('edge_inverse', face_nodes))",
                  "same(result[2], uf('edge_fill_mask', face_nodes))"],
         notes="np.unique pipeline: value contract assumed here (bounded stand-in `edges` exercises it)")

contract(_K + "_populate_edge_node_connectivity", props=["C02", "C08"],
         params={"grid": "obj('Grid')"},
         returns="none",
         requires=["has(grid._ds, 'face_node_connectivity')"],
         ensures=["has(grid._ds, 'edge_node_connectivity')",
                  "same(entry(grid._ds, 'edge_node_connectivity').data, uf('edge_nodes', entry(grid._ds, 'face_node_connectivity').values))",
                  "has(entry(grid._ds, 'edge_node_connectivity').attrs, 'inverse_indices')",
                  "same(entry(grid._ds, 'edge_node_connectivity').attrs['inverse_indices'], "
                  "uf('edge_inverse', entry(grid._ds, 'face_node_connectivity').values))",
                  # no other variable of the grid is added, dropped or replaced
                  "ds_frame(grid._ds, old(grid._ds), ['edge_node_connectivity'])"],
         modifies=["grid._ds['edge_node_connectivity']"],
         options={"frames": True, **_VIEW},
         raises=[("Exception", "False", "only_if")])


# ---- face_edge_connectivity: reshaped from the inverse indices of THIS grid's edge derivation ---------------------------------------
# representation invariant of the side table: if the grid's edge_node_connectivity carries inverse_indices, they are the ones
# np.unique produced for this grid's face_node_connectivity (a table supplied by a reader has no such attribute)
_EN = "entry(grid._ds, 'edge_node_connectivity')"
_FNV = "entry(grid._ds, 'face_node_connectivity').values"
_INV_EN = (f"implies(has(grid._ds, 'edge_node_connectivity') and has({_EN}.attrs, 'inverse_indices'), "
           f"same({_EN}.attrs['inverse_indices'], uf('edge_inverse', {_FNV})) and same({_EN}.data, uf('edge_nodes', {_FNV})))")
inline(_G + "edge_node_connectivity")
_SUP = f"summary('{_K}_inverse_indices_for_supplied_edges', grid)"
_FE = "entry(grid._ds, 'face_edge_connectivity').data"
_BUILD = "summary('" + _K + "_build_face_edge_connectivity', {inv}, dim(grid, 'n_face'), uf('n_max_face_nodes', src(grid)))"
contract(_K + "_populate_face_edge_connectivity", props=["C02", "C08"],
         params={"grid": "obj('Grid', attrs='dict')"},
         returns="none",
         requires=["has(grid._ds, 'face_node_connectivity')", _INV_EN],
         ensures=["has(grid._ds, 'face_edge_connectivity') and has(grid._ds, 'edge_node_connectivity')",
                  # face_edge indices number the rows of the edge table the grid REPORTS afterwards:
                  # (a) a derived table carries the inverse indices it was numbered with, and they are this grid's own (_INV_EN)
                  f"implies(has({_EN}.attrs, 'inverse_indices'), same({_FE}, " + _BUILD.format(inv=f"{_EN}.attrs['inverse_indices']") + "))",
                  # (b) a table supplied by the source stays exactly as it was, and the faces' edges are numbered by ITS rows
                  f"implies(not has({_EN}.attrs, 'inverse_indices'), same({_FE}, " + _BUILD.format(inv=_SUP) + ") and "
                  f"old(has(grid._ds, 'edge_node_connectivity')) and same({_EN}, old({_EN})) and same({_EN}.data, old({_EN}.data)))",
                  # a supplied table is only given up when it is not the set of boundary segments of the faces (no row matching)
                  f"implies(old(has(grid._ds, 'edge_node_connectivity')) and not isnone({_SUP}), same({_EN}, old({_EN})))",
                  "ds_frame(grid._ds, old(grid._ds), ['face_edge_connectivity', 'edge_node_connectivity'])",
                  _INV_EN],
         modifies=["grid._ds['face_edge_connectivity']", "grid._ds['edge_node_connectivity']"],
         options={"frames": True, "abstract": True,
                  "summaries": [_K + "_build_face_edge_connectivity", _K + "_inverse_indices_for_supplied_edges"], **_VIEW},
         raises=[("Exception", "False", "only_if")])


# ---- the remaining connectivity plumbing: what is stored, where, and computed from which of THIS grid's tables -----------------------
# value(T) below is the `.values` of variable T of the grid's dataset in the post-state (a lazily derived input table was added by
# the nested populate call and is not touched afterwards: ds_frame).
def _val(name):
    return f"entry(grid._ds, '{name}').values"


_NF, _NMAX, _NN = "dim(grid, 'n_face')", "uf('n_max_face_nodes', src(grid))", "dim(grid, 'n_node')"
inline(_G + "n_face", _G + "n_node", _G + "n_edge", _G + "n_nodes_per_face", _G + "face_edge_connectivity", _G + "n_max_face_edges",
       _G + "edge_face_connectivity", _G + "node_face_connectivity", _G + "face_face_connectivity")

# n_nodes_per_face
_B = f"summary('{_K}_build_n_nodes_per_face', {_val('face_node_connectivity')}, {_NF}, {_NMAX})"
contract(_K + "_populate_n_nodes_per_face", props=["C02", "C08"],
         params={"grid": "obj('Grid', attrs='dict')"}, returns="none",
         requires=["has(grid._ds, 'face_node_connectivity')", _INV_EN],
         ensures=["has(grid._ds, 'n_nodes_per_face')",
                  f"same(entry(grid._ds, 'n_nodes_per_face').data, {_B}) or "
                  f"same(entry(grid._ds, 'n_nodes_per_face').data, lib('numpy.expand_dims', {_B}, 0))",
                  "ds_frame(grid._ds, old(grid._ds), ['n_nodes_per_face'])", _INV_EN],
         modifies=["grid._ds['n_nodes_per_face']"],
         options={"frames": True, "abstract": True, "summaries": [_K + "_build_n_nodes_per_face"], **_VIEW},
         raises=[("Exception", "False", "only_if")])

# edge_face_connectivity: from this grid's face_edge table, corner counts and edge count
contract(_K + "_populate_edge_face_connectivity", props=["C03", "C08"],
         params={"grid": "obj('Grid', attrs='dict')"}, returns="none",
         requires=["has(grid._ds, 'face_node_connectivity')", _INV_EN],
         ensures=["has(grid._ds, 'edge_face_connectivity')",
                  f"same(entry(grid._ds, 'edge_face_connectivity').data, summary('{_K}_build_edge_face_connectivity', "
                  f"{_val('face_edge_connectivity')}, {_val('n_nodes_per_face')}, dim(grid, 'n_edge')))",
                  "ds_frame(grid._ds, old(grid._ds), ['edge_face_connectivity', 'face_edge_connectivity', 'edge_node_connectivity', "
                  "'n_nodes_per_face'])",
                  # inputs that were already there are used as they are
                  "implies(old(has(grid._ds, 'face_edge_connectivity')), same(entry(grid._ds, 'face_edge_connectivity'), "
                  "old(entry(grid._ds, 'face_edge_connectivity'))))",
                  _INV_EN],
         modifies=["grid._ds['edge_face_connectivity']", "grid._ds['face_edge_connectivity']", "grid._ds['edge_node_connectivity']",
                   "grid._ds['n_nodes_per_face']"],
         options={"frames": True, "abstract": True, "summaries": [_K + "_build_edge_face_connectivity"], **_VIEW},
         raises=[("Exception", "False", "only_if")])

# node_face_connectivity
contract(_K + "_populate_node_face_connectivity", props=["C03", "C08"],
         params={"grid": "obj('Grid', attrs='dict')"}, returns="none",
         requires=["has(grid._ds, 'face_node_connectivity')", _INV_EN],
         ensures=["has(grid._ds, 'node_face_connectivity')",
                  f"same(entry(grid._ds, 'node_face_connectivity').data, item(summary('{_K}_build_node_faces_connectivity', "
                  f"{_val('face_node_connectivity')}, {_NN}), 0))",
                  "ds_frame(grid._ds, old(grid._ds), ['node_face_connectivity'])", _INV_EN],
         modifies=["grid._ds['node_face_connectivity']"],
         options={"frames": True, "abstract": True, "summaries": [_K + "_build_node_faces_connectivity"], **_VIEW},
         raises=[("Exception", "False", "only_if")])

# face_face_connectivity (the builder reads the grid itself)
contract(_K + "_populate_face_face_connectivity", props=["C03", "C08"],
         params={"grid": "obj('Grid', attrs='dict')"}, returns="none",
         requires=["has(grid._ds, 'face_node_connectivity')", _INV_EN],
         ensures=["has(grid._ds, 'face_face_connectivity')",
                  f"same(entry(grid._ds, 'face_face_connectivity').data, summary('{_K}_build_face_face_connectivity', grid))",
                  "ds_frame(grid._ds, old(grid._ds), ['face_face_connectivity'])", _INV_EN],
         modifies=["grid._ds['face_face_connectivity']"],
         options={"frames": True, "abstract": True, "summaries": [_K + "_build_face_face_connectivity"], **_VIEW},
         raises=[("Exception", "False", "only_if")],
         notes="_build_face_face_connectivity(grid) is summarised as a function of the grid: the tables it derives lazily on the way "
               "(edge_face_connectivity) are NOT visible in this frame condition - assumption")
