"""Contracts: uxarray/io/_mpas.py index helpers (C01: "zero-based indices, padding only with the standard fill value")"""
from pyvc.contracts import contract

contract("uxarray.io._mpas._replace_padding", props=["C01"],
         sizes=["n", "W"],
         params={"verticesOnCell": "arr(int, n, W, owner='fresh')", "nEdgesOnCell": "arr(int, n)"},
         returns="arr(int, n, W)",
         ensures=["forall(0, n, 0, W, lambda f, j: result[f, j] == ite(j < nEdgesOnCell[f], old(verticesOnCell)[f, j], FILL))",
                  "shape(result) == (n, W)"],
         raises=[("Exception", "False", "only_if")])

contract("uxarray.io._mpas._replace_zeros", props=["C01"],
         sizes=["n", "W"],
         params={"grid_var": "arr(int, n, W, owner='fresh')"},
         returns="arr(int, n, W)",
         ensures=["forall(0, n, 0, W, lambda f, j: result[f, j] == ite(old(grid_var)[f, j] == 0, FILL, old(grid_var)[f, j]))"],
         raises=[("Exception", "False", "only_if")])

contract("uxarray.io._mpas._to_zero_index", props=["C01"],
         sizes=["n", "W"],
         params={"grid_var": "arr(int, n, W, owner='fresh')"},
         returns="arr(int, n, W)",
         ensures=["forall(0, n, 0, W, lambda f, j: result[f, j] == ite(old(grid_var)[f, j] == FILL, FILL, old(grid_var)[f, j] - 1))"],
         raises=[("Exception", "False", "only_if")])
