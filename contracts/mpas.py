"""Contracts: uxarray/io/_mpas.py index helpers (C01: "zero-based indices, padding only with the standard fill value")"""
from pyvc.contracts import contract

contract("uxarray.io._mpas._replace_padding", props=["C01"],
         sizes=["n", "W"],
         params={"verticesOnCell": "arr(int, n, W, owner='fresh')", "nEdgesOnCell": "arr(int, n)"},
         modifies=["verticesOnCell"],   # works in place: callers must pass a private copy, never the source dataset's array
         requires=["owner_is(verticesOnCell, 'fresh')"],
         returns="arr(int, n, W)", result_ghost={"owner": "fresh"},   # the (private) argument itself is returned
         ensures=["forall(0, n, 0, W, lambda f, j: result[f, j] == ite(j < nEdgesOnCell[f], old(verticesOnCell)[f, j], FILL))",
                  "shape(result) == (n, W)"],
         raises=[("Exception", "False", "only_if")])

contract("uxarray.io._mpas._replace_zeros", props=["C01"],
         sizes=["n", "W"],
         params={"grid_var": "arr(int, n, W, owner='fresh')"},
         modifies=["grid_var"],
         requires=["owner_is(grid_var, 'fresh')"],
         returns="arr(int, n, W)", result_ghost={"owner": "fresh"},
         ensures=["forall(0, n, 0, W, lambda f, j: result[f, j] == ite(old(grid_var)[f, j] == 0, FILL, old(grid_var)[f, j]))"],
         raises=[("Exception", "False", "only_if")])

contract("uxarray.io._mpas._to_zero_index", props=["C01"],
         sizes=["n", "W"],
         params={"grid_var": "arr(int, n, W, owner='fresh')"},
         modifies=["grid_var"],
         requires=["owner_is(grid_var, 'fresh')"],
         returns="arr(int, n, W)", result_ghost={"owner": "fresh"},
         ensures=["forall(0, n, 0, W, lambda f, j: result[f, j] == ite(old(grid_var)[f, j] == FILL, FILL, old(grid_var)[f, j] - 1))"],
         raises=[("Exception", "False", "only_if")])


# ---- source-supplied MPAS tables: "carried over with the same meaning, re-indexed consistently" (C01, C03) ---------------------
_MP = "uxarray.io._mpas."
_OUT = "entry(out_ds.vars, '{v}').data"
_IN = "entry(in_ds.vars, '{v}').data"


def _tbl(fn, src, dst, padded, mesh_type=None, n="n_row", extra_params=None):
    """table `src` (1-based, 0 = missing; `padded`: only the first nEdgesOnCell[r] entries of a row are meaningful)"""
    c = _IN.format(v=src)
    keep = f"{c}[r, j] != 0" + (f" and j < {_IN.format(v='nEdgesOnCell')}[r]" if padded else "")
    vars_ = {src: f"arr(int, {n}, W)"}
    if padded:
        vars_["nEdgesOnCell"] = f"arr(int, {n})"
    params = {"in_ds": f"obj('Dataset', owner='caller', vars={vars_!r})", "out_ds": "obj('Dataset', owner='fresh')"}
    if mesh_type is not None:
        params["mesh_type"] = repr(mesh_type)
    contract(_MP + fn, props=["C01", "C02", "C03"], variant=(mesh_type or "primal"),
             sizes=[n, "W"], params=params, returns="none",
             # MPAS index tables are one-based, 0 marks a missing entry (MPAS mesh specification)
             requires=[f"forall(0, {n}, 0, W, lambda r, j: {c}[r, j] >= 0)"],
             ensures=[f"has(out_ds.vars, '{dst}')",
                      f"forall(0, {n}, 0, W, lambda r, j: {_OUT.format(v=dst)}[r, j] == ite({keep}, {c}[r, j] - 1, FILL))",
                      # the source dataset's array is left as it was
                      f"forall(0, {n}, 0, W, lambda r, j: {c}[r, j] == old({c})[r, j])"],
             options={"frames": True},
             raises=[("Exception", "False", "only_if")])


_tbl("_parse_face_faces", "cellsOnCell", "face_face_connectivity", padded=True)
_tbl("_parse_node_faces", "cellsOnVertex", "node_face_connectivity", padded=False, mesh_type="primal")
_tbl("_parse_node_faces", "verticesOnCell", "node_face_connectivity", padded=True, mesh_type="dual")

_tbl("_parse_face_nodes", "verticesOnCell", "face_node_connectivity", padded=True, mesh_type="primal")
_tbl("_parse_face_nodes", "cellsOnVertex", "face_node_connectivity", padded=False, mesh_type="dual")
_tbl("_parse_face_edges", "edgesOnCell", "face_edge_connectivity", padded=True, mesh_type="primal")
_tbl("_parse_face_edges", "edgesOnVertex", "face_edge_connectivity", padded=False, mesh_type="dual")
_tbl("_parse_edge_faces", "cellsOnEdge", "edge_face_connectivity", padded=False, mesh_type="primal")
_tbl("_parse_edge_faces", "verticesOnEdge", "edge_face_connectivity", padded=False, mesh_type="dual")
_tbl("_parse_edge_nodes", "verticesOnEdge", "edge_node_connectivity", padded=False, mesh_type="primal")
_tbl("_parse_edge_nodes", "cellsOnEdge", "edge_node_connectivity", padded=False, mesh_type="dual")
