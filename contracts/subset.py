"""Contracts: uxarray/subset/grid_accessor.py (C09 dataflow): which tree answers a subset query, and along which grid dimension
the returned element indices slice the grid"""
from pyvc.contracts import contract, inline

_A = "uxarray.subset.grid_accessor.GridSubsetAccessor."
_G = "uxarray.grid.grid.Grid."
_SELF = "obj('Record', cls='GridSubsetAccessor', fields={'uxgrid': \"obj('Grid')\"})"
_OPT = {"abstract": True, "py_int_injective": True, "classes": {"GridSubsetAccessor": [("uxarray.subset.grid_accessor", "GridSubsetAccessor")]},
        "summaries": [_G + "isel", _G + "get_ball_tree", _G + "get_kd_tree"]}
_DIM = {"nodes": "n_node", "edge centers": "n_edge", "face centers": "n_face"}
inline(_A + "_get_tree", _A + "_index_grid")

for _el, _dim in _DIM.items():
    contract(_A + "_index_grid", props=["C09"], variant=_el,
             params={"self": _SELF, "ind": "opaque", "tree_type": repr(_el)}, returns="opaque",
             # indices of elements of a kind slice the grid along the dimension of THAT kind
             ensures=[f"same(result, summary('{_G}isel', self.uxgrid, {{'{_dim}': ind}}))"],
             options=_OPT, raises=[("Exception", "False", "only_if")])

    _LEN = "lib('len', lib('numpy.asarray', center_coord))"
    _BALL = f"summary('{_G}get_ball_tree', self.uxgrid, '{_el}', 'spherical', 'haversine', False)"
    _KD = f"summary('{_G}get_kd_tree', self.uxgrid, '{_el}', 'cartesian', 'minkowski', False)"

    def _res(tree, call, extra):
        return (f"same(result, summary('{_G}isel', self.uxgrid, {{'{_dim}': " + call.format(tree=tree, extra=extra) + "}))")
    _Q = "item(meth('query', {tree}, lib('numpy.asarray', center_coord), {extra}), 1)"
    contract(_A + "nearest_neighbor", props=["C09"], variant=_el,
             params={"self": _SELF, "center_coord": "opaque", "k": "opaque", "element": repr(_el)}, returns="opaque",
             # the k nearest elements OF THE REQUESTED KIND (tree of that kind: ball tree for lon/lat, k-d tree for xyz queries)
             # select the grid along the dimension of that kind
             ensures=[f"implies(same({_LEN}, 2), {_res(_BALL, _Q, 'k')})", f"implies(same({_LEN}, 3), {_res(_KD, _Q, 'k')})"],
             options=_OPT, raises=[("ValueError", "True", "only_if")])
    _R = "meth('query_radius', {tree}, lib('numpy.asarray', center_coord), {extra})"
    contract(_A + "bounding_circle", props=["C09"], variant=_el,
             params={"self": _SELF, "center_coord": "opaque", "r": "opaque", "element": repr(_el)}, returns="opaque",
             ensures=[f"implies(same({_LEN}, 2), {_res(_BALL, _R, 'r')})", f"implies(same({_LEN}, 3), {_res(_KD, _R, 'r')})"],
             options=_OPT, raises=[("ValueError", "True", "only_if")])


# ---- _slice_face_indices (C09 / C03 / C02 / C16): which variables of the source grid reach the subset, and which elements -------------
# The subset is built by Grid.from_dataset from a dataset that (a) holds the source variables indexed by the kept faces, by the nodes
# of those faces and by the edges of those faces; (b) holds NO table that indexes faces or edges of the SOURCE grid (incidence tables,
# face_edge_connectivity, hole edges) and no edge-face distances (zero on boundary edges of the SOURCE, which differ from those of
# the subset): they are rebuilt on the subset; (c) keeps the per-element geometry (coordinates, edge_node_distances, face areas).
_SLI = "uxarray.grid.slice."
_GG = "uxarray.grid.grid.Grid."
_SRC_VARS = ["node_lon", "node_lat", "node_x", "face_lon", "face_areas", "edge_node_distances", "edge_face_distances",
             "face_node_connectivity", "edge_node_connectivity", "face_edge_connectivity", "node_face_connectivity",
             "edge_face_connectivity", "face_face_connectivity", "hole_edge_indices", "n_nodes_per_face"]
_DROPPED = ["face_edge_connectivity", "node_face_connectivity", "edge_face_connectivity", "face_face_connectivity", "hole_edge_indices",
            "edge_face_distances"]
_KEPT = ["node_lon", "node_lat", "node_x", "face_lon", "face_areas", "edge_node_distances", "n_nodes_per_face",
         "face_node_connectivity", "edge_node_connectivity", "subgrid_node_indices", "subgrid_face_indices", "subgrid_edge_indices"]
_FI = "lib('numpy.asarray', indices, dtype=INT_DTYPE)"
_SUBIDX = ["subgrid_node_indices", "subgrid_face_indices", "subgrid_edge_indices"]
for _variant, _extra in (("", []), ("source_is_itself_a_subset", _SUBIDX)):
  contract(_SLI + "_slice_face_indices", props=["C09", "C03", "C02", "C16", "C10"], variant=_variant or None,
         params={"grid": f"obj('Grid', ds_vars={_SRC_VARS + _extra!r})", "indices": "opaque", "inclusive": "True"},
         returns="opaque",
         ensures=[],
         asserts={"before:return Grid.from_dataset(ds, source_grid_spec=grid.source_grid_spec)":
                  [f"assert not has(ds, '{_n}')" for _n in _DROPPED] + [f"assert has(ds, '{_n}')" for _n in _KEPT] +
                  # the recorded source indices are THIS selection's (also when the source grid carries those of an earlier one)
                  ["assert same(ds['subgrid_face_indices'].data, face_indices)",
                   "assert same(ds['subgrid_node_indices'].data, node_indices)",
                   "assert same(ds['subgrid_edge_indices'].data, edge_indices)"],
                  # the nodes / edges carried over are determined by the corner rows / edge rows of the kept faces and nothing else
                  "before^ds = ds.isel(n_node#0": [
                      f"assert depends_only(node_indices, getitem(attr(summary('{_GG}face_node_connectivity', grid), 'values'), face_indices))",
                      f"assert depends_only(edge_indices, getitem(attr(summary('{_GG}face_edge_connectivity', grid), 'values'), face_indices))"]},
         options={"abstract": True, "summaries": [_GG + "from_dataset", _GG + "face_node_connectivity", _GG + "face_edge_connectivity",
                                                  _GG + "edge_node_connectivity"]},
         raises=[("Exception", "False", "only_if")])


# _slice_node_indices / _slice_edge_indices: the faces kept are the faces listed in the rows of the SELECTED nodes / edges of
# node_face_connectivity / edge_face_connectivity (all of them, padding removed), and the subset is the face subset of those
for _fn, _tab in (("_slice_node_indices", "node_face_connectivity"), ("_slice_edge_indices", "edge_face_connectivity")):
    _U = f"lib('numpy.unique', meth('ravel', getitem(attr(summary('{_GG}{_tab}', grid), 'values'), indices)))"
    contract(_SLI + _fn, props=["C09"],
             params={"grid": "obj('Grid')", "indices": "opaque", "inclusive": "True"},
             returns="opaque",
             ensures=[f"same(result, summary('{_SLI}_slice_face_indices', grid, getitem({_U}, {_U} != FILL), True))"],
             options={"abstract": True, "summaries": [_SLI + "_slice_face_indices", _GG + _tab]},
             raises=[("Exception", "False", "only_if")])


# ---- Grid.get_faces_at_constant_latitude (C09): the faces of a cross-section are the faces adjacent to the edges the latitude scan
# reports (padding removed) - whatever else the grid has cached (no shortcut through bounds or other derived tables)
_EDGES = f"summary('{_GG}get_edges_at_constant_latitude', self, lat, method)"
_UF = f"lib('numpy.unique', meth('ravel', attr(getitem(summary('{_GG}edge_face_connectivity', self), {_EDGES}), 'data')))"
contract(_GG + "get_faces_at_constant_latitude", props=["C09"],
         params={"self": "obj('Grid')", "lat": "opaque", "method": "opaque"}, returns="opaque",
         ensures=[f"same(result, getitem({_UF}, {_UF} != FILL))"],
         options={"abstract": True, "summaries": [_GG + "get_edges_at_constant_latitude", _GG + "edge_face_connectivity"]},
         raises=[("Exception", "False", "only_if")])
