"""Contracts: uxarray/subset/grid_accessor.py (C09 dataflow): which tree answers a subset query, and along which grid dimension
the returned element indices slice the grid"""
from pyvc.contracts import contract, inline

_A = "uxarray.subset.grid_accessor.GridSubsetAccessor."
_G = "uxarray.grid.grid.Grid."
_SELF = "obj('Record', cls='GridSubsetAccessor', fields={'uxgrid': \"obj('Grid')\"})"
_OPT = {"abstract": True, "py_int_injective": True, "classes": {"GridSubsetAccessor": [("uxarray.subset.grid_accessor", "GridSubsetAccessor")]},
        "summaries": [_G + "isel", _G + "get_ball_tree", _G + "get_kd_tree"]}
_DIM = {"nodes": "n_node", "edge centers": "n_edge", "face centers": "n_face"}
inline(_A + "_get_tree", _A + "_index_grid")

for _el, _dim in _DIM.items():
    contract(_A + "_index_grid", props=["C09"], variant=_el,
             params={"self": _SELF, "ind": "opaque", "tree_type": repr(_el)}, returns="opaque",
             # indices of elements of a kind slice the grid along the dimension of THAT kind
             ensures=[f"same(result, summary('{_G}isel', self.uxgrid, {{'{_dim}': ind}}))"],
             options=_OPT, raises=[("Exception", "False", "only_if")])

    _LEN = "lib('len', lib('numpy.asarray', center_coord))"
    _BALL = f"summary('{_G}get_ball_tree', self.uxgrid, '{_el}', 'spherical', 'haversine', False)"
    _KD = f"summary('{_G}get_kd_tree', self.uxgrid, '{_el}', 'cartesian', 'minkowski', False)"

    def _res(tree, call, extra):
        return (f"same(result, summary('{_G}isel', self.uxgrid, {{'{_dim}': " + call.format(tree=tree, extra=extra) + "}))")
    _Q = "item(meth('query', {tree}, lib('numpy.asarray', center_coord), {extra}), 1)"
    contract(_A + "nearest_neighbor", props=["C09"], variant=_el,
             params={"self": _SELF, "center_coord": "opaque", "k": "opaque", "element": repr(_el)}, returns="opaque",
             # the k nearest elements OF THE REQUESTED KIND (tree of that kind: ball tree for lon/lat, k-d tree for xyz queries)
             # select the grid along the dimension of that kind
             ensures=[f"implies(same({_LEN}, 2), {_res(_BALL, _Q, 'k')})", f"implies(same({_LEN}, 3), {_res(_KD, _Q, 'k')})"],
             options=_OPT, raises=[("ValueError", "True", "only_if")])
    _R = "meth('query_radius', {tree}, lib('numpy.asarray', center_coord), {extra})"
    contract(_A + "bounding_circle", props=["C09"], variant=_el,
             params={"self": _SELF, "center_coord": "opaque", "r": "opaque", "element": repr(_el)}, returns="opaque",
             ensures=[f"implies(same({_LEN}, 2), {_res(_BALL, _R, 'r')})", f"implies(same({_LEN}, 3), {_res(_KD, _R, 'r')})"],
             options=_OPT, raises=[("ValueError", "True", "only_if")])
