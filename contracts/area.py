"""Contracts: uxarray/grid/area.py quadrature tables (C05: valid rules whose exactness degree does not decrease with the order)"""
from pyvc.contracts import contract

# degree of exactness of the n-point rule returned for nCount = n.  n = 9 is a 9-point Gauss-Lobatto rule (degree 15), every
# other table is Gauss-Legendre (degree 2n - 1); the degree is non-decreasing in n, which is what convergence with the order needs
_GAUSS_DEGREE = {1: 1, 2: 3, 3: 5, 4: 7, 5: 9, 6: 11, 7: 13, 8: 15, 9: 15, 10: 19}
for _n, _deg in _GAUSS_DEGREE.items():
    contract("uxarray.grid.area.get_gauss_quadratureDG", props=["C05", "C06"], variant=f"n={_n}",
             params={"nCount": repr(_n)},
             returns="opaque",
             ensures=[f"gauss_rule_ok(result[0], result[1], {_deg}, 1e-12)",
                      f"shape(result[0]) == (1, {_n}) and shape(result[1]) == ({_n},)"],
             raises=[("Exception", "False", "only_if")])

for _o in (1, 4, 8, 10, 12):
    contract("uxarray.grid.area.get_tri_quadratureDG", props=["C05", "C06"], variant=f"order={_o}",
             params={"nOrder": repr(_o)},
             returns="opaque",
             ensures=[f"tri_rule_ok(result[0], result[1], {_o}, 1e-10)"],
             raises=[("Exception", "False", "only_if")])


# ---- calculate_face_area: the fan triangulation from corner 0 covers EVERY corner (C05) -----------------------------------------------
# area == fan(n - 2) with fan(0) = 0, fan(j + 1) = fan(j) + Q(corner 0, corner j + 1, corner j + 2), where Q is the quadrature sum of
# the rule's weights times the Jacobian at the rule's points.  The Jacobian is an uninterpreted real function here (its own value
# is exercised by the bounded stand-in); the rule tables are the real ones (obtained by the function itself just before the
# definition point).  What this decides: no corner is skipped or used twice, the right weights meet the right points, for any number
# of corners, both rules, every supported order and both coordinate inputs.
from pyvc.contracts import inline, loop  # noqa: E402

_A = "uxarray.grid.area."
inline(_A + "get_gauss_quadratureDG", _A + "get_tri_quadratureDG")
for _j in ("calculate_spherical_triangle_jacobian", "calculate_spherical_triangle_jacobian_barycentric"):
    contract(_A + _j, trusted=True, props=["C05"],
             params={"node1": "small(real, 3)", "node2": "small(real, 3)", "node3": "small(real, 3)", "dA": "real", "dB": "real"},
             returns="real", ensures=["result == ufr('jac', node1, node2, node3, dA, dB)"],
             notes="value of the Jacobian at one quadrature point: uninterpreted here")
contract("uxarray.grid.coordinates._lonlat_rad_to_xyz", variant="point", trusted=True, props=["C05"],
         params={"lon": "real", "lat": "real"}, returns="tuple(real, real, real)",
         ensures=["result[0] == ufr('llx', lon, lat) and result[1] == ufr('lly', lon, lat) and result[2] == ufr('llz', lon, lat)"],
         notes="caller-side abstraction of the proved conversion (contracts/coordinates.py)")


def _node(k, ct):
    if ct == "cartesian":
        return f"[x[{k}], y[{k}], z[{k}]]"
    return (f"[ufr('llx', deg2rad(x[{k}]), deg2rad(y[{k}])), ufr('lly', deg2rad(x[{k}]), deg2rad(y[{k}])), "
            f"ufr('llz', deg2rad(x[{k}]), deg2rad(y[{k}]))]")


_RULES = [("gaussian", o) for o in range(1, 11)] + [("triangular", o) for o in (1, 4, 8, 10, 12)]
for _rule, _o in _RULES:
    for _ct in ("spherical", "cartesian"):
        _tri = f"{_node(0, _ct)}, {_node('j - 1 + 1', _ct)}, {_node('j - 1 + 2', _ct)}"
        if _rule == "gaussian":
            _Q = f"sum([sum([dW[p] * dW[q] * ufr('jac', {_tri}, dG[0][p], dG[0][q]) for q in range(len(dW))]) for p in range(len(dW))])"
        else:
            _Q = f"sum([dW[p] * ufr('jac', {_tri}, dG[p][0], dG[p][1]) for p in range(len(dW))])"
        contract(_A + "calculate_face_area", props=["C05"], variant=f"{_rule},{_o},{_ct}",
                 sizes=["n"],
                 params={"x": "arr(real, n)", "y": "arr(real, n)", "z": "arr(real, n)", "quadrature_rule": repr(_rule), "order": repr(_o),
                         "coords_type": repr(_ct)},
                 returns="tuple(real, real)",
                 ensures=["result[0] == fan(n - 2)"],
                 loops={0: loop(counter="jj", invariants=["area == fan(jj)"])},
                 asserts={"after:num_nodes = len(x)": [f"defrec fan(j) : real = ite(j <= 0, 0, fan(j - 1) + {_Q})"]},
                 options={"callee_variants": {"uxarray.grid.coordinates._lonlat_rad_to_xyz": "point"}},
                 raises=[("Exception", "False", "only_if")])


# ---- get_all_face_area_from_coords: every face is integrated over exactly its own real corners, in order (C05) --------------------------
# area[f] == A(corners of face f) where the corner arrays handed to calculate_face_area are node coordinate arrays gathered with
# the first face_geometry[f] entries of row f - padding never reaches the integrator.  A(...) is the (summarised) value of
# calculate_face_area as a function of the corner arrays and their number.
_AREA_OF = "ufarr('face_area', {x}, {y}, {z}, {n})"
contract(_A + "calculate_face_area", variant="caller_view", trusted=True, props=["C05"],
         sizes=["m"], params={"x": "arr(real, m)", "y": "arr(real, m)", "z": "arr(real, m)", "quadrature_rule": "opaque", "order": "opaque",
                              "coords_type": "opaque"},
         returns="tuple(real, real)",
         ensures=["result[0] == " + _AREA_OF.format(x="x", y="y", z="z", n="m")],
         notes="caller-side abstraction: the area is a function of the corner arrays (rule / order / input kind fixed per call site)")

for _dim in (2, 3):
    _gx, _gy = ("x[face_nodes[f, 0:face_geometry[f]]]", "y[face_nodes[f, 0:face_geometry[f]]]")
    _gz = "z[face_nodes[f, 0:face_geometry[f]]]" if _dim > 2 else "(" + _gx + " * 0.0)"
    contract(_A + "get_all_face_area_from_coords", props=["C05", "C06"], variant=f"dim={_dim}",
             sizes=["n_node", "n_face", "W"],
             params={"x": "arr(real, n_node)", "y": "arr(real, n_node)", "z": "arr(real, n_node)", "face_nodes": "arr(int, n_face, W)",
                     "face_geometry": "arr(int, n_face)", "dim": repr(_dim), "quadrature_rule": "opaque", "order": "opaque",
                     "coords_type": "opaque"},
             requires=["forall(0, n_face, lambda f: 0 <= face_geometry[f] and face_geometry[f] <= W)",
                       "forall(0, n_face, 0, W, lambda f, t: implies(t < face_geometry[f], 0 <= face_nodes[f, t] and face_nodes[f, t] < n_node))"],
             returns="tuple(arr(real, n_face), arr(real, n_face))",
             ensures=["shape(result[0]) == (n_face,)",
                      f"forall(0, n_face, lambda f: result[0][f] == " + _AREA_OF.format(x=_gx, y=_gy, z=_gz, n="face_geometry[f]") + ")"],
             loops={0: loop(counter="fi", invariants=[
                 "forall(0, fi, lambda f: area[f] == " + _AREA_OF.format(x=_gx, y=_gy, z=_gz, n="face_geometry[f]") + ")"])},
             options={"callee_variants": {_A + "calculate_face_area": "caller_view"}},
             raises=[("Exception", "False", "only_if")])
