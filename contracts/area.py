"""Contracts: uxarray/grid/area.py quadrature tables (C05: valid rules whose exactness degree does not decrease with the order)"""
from pyvc.contracts import contract

# degree of exactness of the n-point rule returned for nCount = n.  n = 9 is a 9-point Gauss-Lobatto rule (degree 15), every
# other table is Gauss-Legendre (degree 2n - 1); the degree is non-decreasing in n, which is what convergence with the order needs
_GAUSS_DEGREE = {1: 1, 2: 3, 3: 5, 4: 7, 5: 9, 6: 11, 7: 13, 8: 15, 9: 15, 10: 19}
for _n, _deg in _GAUSS_DEGREE.items():
    contract("uxarray.grid.area.get_gauss_quadratureDG", props=["C05"], variant=f"n={_n}",
             params={"nCount": repr(_n)},
             returns="opaque",
             ensures=[f"gauss_rule_ok(result[0], result[1], {_deg}, 1e-12)",
                      f"shape(result[0]) == (1, {_n}) and shape(result[1]) == ({_n},)"],
             raises=[("Exception", "False", "only_if")])

for _o in (1, 4, 8, 10, 12):
    contract("uxarray.grid.area.get_tri_quadratureDG", props=["C05"], variant=f"order={_o}",
             params={"nOrder": repr(_o)},
             returns="opaque",
             ensures=[f"tri_rule_ok(result[0], result[1], {_o}, 1e-10)"],
             raises=[("Exception", "False", "only_if")])
