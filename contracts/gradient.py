"""Contracts: uxarray/core/gradient.py (C16 differences and gradients follow the edge's own neighbours)"""
from pyvc.contracts import contract, inline

# the difference helper has one contract per rank (verified separately); in the gradient it is executed in place
inline("uxarray.core.gradient._calculate_edge_face_difference")

_G = "uxarray.core.gradient."
_EF_OK = ("forall(0, n_edge, lambda e: 0 <= edge_faces[e, 0] and edge_faces[e, 0] < n_face and "
          "(edge_faces[e, 1] == FILL or (0 <= edge_faces[e, 1] and edge_faces[e, 1] < n_face)))")

for _rank, _kind in ((1, "real"), (2, "real"), (1, "int"), (2, "int")):
    _lead = "" if _rank == 1 else "k, "
    _var = f"rank{_rank}" + ("" if _kind == "real" else "_int")
    _q = "forall(0, n_edge, lambda e: {body})" if _rank == 1 else "forall(0, n_lead, 0, n_edge, lambda k, e: {body})"
    _shape = "n_face" if _rank == 1 else "n_lead, n_face"
    _DIFF = f"abs(d_var[{_lead}edge_faces[e, 0]] - d_var[{_lead}edge_faces[e, 1]])"

    contract(_G + "_calculate_edge_face_difference", props=["C16", "C03"], variant=_var,
             sizes=["n_face", "n_edge", "n_lead"],
             params={"d_var": f"arr({_kind}, {_shape}, owner='caller')", "edge_faces": "arr(int, n_edge, 2, owner='caller', vspace='face')",
                     "n_edge": "n_edge"},
             requires=[_EF_OK],
             returns="opaque",
             ensures=[_q.format(body=f"eqr(result[{_lead}e], ite(edge_faces[e, 1] == FILL, 0, {_DIFF}))"),
                      f"shape(result)[-1] == n_edge"],
             options={"frames": True},
             raises=[("Exception", "False", "only_if")])

    _shape_n = "n_node" if _rank == 1 else "n_lead, n_node"
    contract(_G + "_calculate_edge_node_difference", props=["C16"], variant=_var,
             sizes=["n_node", "n_edge", "n_lead"],
             params={"d_var": f"arr({_kind}, {_shape_n}, owner='caller')", "edge_nodes": "arr(int, n_edge, 2, owner='caller', vspace='node')"},
             requires=["forall(0, n_edge, 0, 2, lambda e, t: 0 <= edge_nodes[e, t] and edge_nodes[e, t] < n_node)"],
             returns="opaque",
             ensures=[_q.format(body=f"eqr(result[{_lead}e], abs(d_var[{_lead}edge_nodes[e, 0]] - d_var[{_lead}edge_nodes[e, 1]]))")],
             options={"frames": True},
             raises=[("Exception", "False", "only_if")])

    # gradient (not normalised): difference / centre-to-centre distance, zero on boundary edges; the distance table of the
    # grid is read only (it is the grid's cached array)
    contract(_G + "_calculate_grad_on_edge_from_faces", props=["C16", "C03"], variant=_var,
             sizes=["n_face", "n_edge", "n_lead"],
             params={"d_var": f"arr({_kind}, {_shape}, owner='caller')", "edge_faces": "arr(int, n_edge, 2, owner='caller', vspace='face')",
                     "n_edge": "n_edge", "edge_face_distances": "arr(real, n_edge, owner='caller')", "normalize": "False"},
             requires=[_EF_OK, "forall(0, n_edge, lambda e: implies(edge_faces[e, 1] != FILL, edge_face_distances[e] > 0))"],
             returns="opaque",
             ensures=[_q.format(body=f"eqr(result[{_lead}e], ite(edge_faces[e, 1] == FILL, 0, {_DIFF} / edge_face_distances[e]))"),
                      "forall(0, n_edge, lambda e: edge_face_distances[e] == old(edge_face_distances)[e])"],
             options={"frames": True},
             raises=[("Exception", "False", "only_if")])


# ---- public wrappers (C16 dataflow): which kernel gets which of THIS array's grid tables, where the result lives ---------------------
_U = "uxarray.core.dataarray.UxDataArray."
_GR = "uxarray.core.gradient."
_G = "uxarray.grid.grid.Grid."
_ACC = [_G + a for a in ("edge_face_connectivity", "edge_face_distances", "edge_node_connectivity", "n_edge")]
_KER = [_GR + k for k in ("_calculate_grad_on_edge_from_faces", "_calculate_edge_face_difference", "_calculate_edge_node_difference")]


def _acc(a):
    return f"attr(summary('{_G}{a}', self.uxgrid), 'values')"


for _d in (("n_face",), ("time", "n_face"), ("n_node",)):
    _face = _d[-1] == "n_face"
    contract(_U + "gradient", props=["C16"], variant="dims=" + ",".join(_d),
             params={"self": f"obj('UxDataArray', dims={_d!r})", "normalize": "optional(bool)", "use_magnitude": "optional(bool)"},
             returns="opaque",
             ensures=([f"same(result.values, summary('{_GR}_calculate_grad_on_edge_from_faces', self.values, {_acc('edge_face_connectivity')}, "
                       f"self.uxgrid.n_edge, {_acc('edge_face_distances')}, normalize))",
                       "same(result.uxgrid, self.uxgrid)", f"result.dims == {list(_d[:-1]) + ['n_edge']!r}"] if _face else []),
             options={"abstract": True, "summaries": _ACC + _KER},
             raises=[("ValueError", str(not _face), "iff")])

for _d, _dest in ((("n_face",), "edge"), (("time", "n_face"), "edge"), (("n_node",), "edge"), (("lev", "n_node"), "edge"),
                  (("n_face",), "face"), (("n_node",), "node"), (("n_face",), "node"), (("n_node",), "face"), (("n_face",), "bogus")):
    _ok = _dest == "edge"
    if _d[-1] == "n_face":
        _val = f"summary('{_GR}_calculate_edge_face_difference', self.values, {_acc('edge_face_connectivity')}, self.uxgrid.n_edge)"
    else:
        _val = f"summary('{_GR}_calculate_edge_node_difference', self.values, self.uxgrid.edge_node_connectivity.values)"
    contract(_U + "difference", props=["C16"], variant="dims=" + ",".join(_d) + ";" + _dest,
             params={"self": f"obj('UxDataArray', dims={_d!r})", "destination": repr(_dest)},
             returns="opaque",
             ensures=([f"same(result.values, {_val})", "same(result.uxgrid, self.uxgrid)",
                       f"result.dims == {list(_d[:-1]) + ['n_edge']!r}"] if _ok else []),
             options={"abstract": True, "summaries": _ACC + _KER},
             raises=[("ValueError", str(not _ok), "iff")])


# ---- edge distance plumbing (C16 dataflow): the distances stored on a grid are computed from THIS grid's spherical coordinates (node /
# face lon-lat, which exist for every source and are unit-free) and THIS grid's edge tables, and nothing else in the dataset changes
_N = "uxarray.grid.neighbors."
for _fn, _var, _lon, _lat, _tab in (("_populate_edge_node_distances", "edge_node_distances", "node_lon", "node_lat", "edge_node_connectivity"),
                                    ("_populate_edge_face_distances", "edge_face_distances", "face_lon", "face_lat", "edge_face_connectivity")):
    _kern = _N + _fn.replace("_populate", "_construct")
    contract(_N + _fn, props=["C16"],
             params={"grid": "obj('Grid')"}, returns="none",
             modifies=[f"grid._ds['{_var}']"],
             ensures=[f"has(grid._ds, '{_var}')",
                      f"same(entry(grid._ds, '{_var}').data, summary('{_kern}', attr(summary('{_G}{_lon}', grid), 'values'), "
                      f"attr(summary('{_G}{_lat}', grid), 'values'), attr(summary('{_G}{_tab}', grid), 'values')))",
                      f"entry(grid._ds, '{_var}').dims == ['n_edge']",
                      f"ds_frame(grid._ds, old(grid._ds), ['{_var}'])"],
             options={"abstract": True, "frames": True, "summaries": [_kern, _G + _lon, _G + _lat, _G + _tab]},
             raises=[("Exception", "False", "only_if")])
