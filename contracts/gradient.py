"""Contracts: uxarray/core/gradient.py (C16 differences and gradients follow the edge's own neighbours)"""
from pyvc.contracts import contract, inline

# the difference helper has one contract per rank (verified separately); in the gradient it is executed in place
inline("uxarray.core.gradient._calculate_edge_face_difference")

_G = "uxarray.core.gradient."
_EF_OK = ("forall(0, n_edge, lambda e: 0 <= edge_faces[e, 0] and edge_faces[e, 0] < n_face and "
          "(edge_faces[e, 1] == FILL or (0 <= edge_faces[e, 1] and edge_faces[e, 1] < n_face)))")

for _rank, _kind in ((1, "real"), (2, "real"), (1, "int"), (2, "int")):
    _lead = "" if _rank == 1 else "k, "
    _var = f"rank{_rank}" + ("" if _kind == "real" else "_int")
    _q = "forall(0, n_edge, lambda e: {body})" if _rank == 1 else "forall(0, n_lead, 0, n_edge, lambda k, e: {body})"
    _shape = "n_face" if _rank == 1 else "n_lead, n_face"
    _DIFF = f"abs(d_var[{_lead}edge_faces[e, 0]] - d_var[{_lead}edge_faces[e, 1]])"

    contract(_G + "_calculate_edge_face_difference", props=["C16"], variant=_var,
             sizes=["n_face", "n_edge", "n_lead"],
             params={"d_var": f"arr({_kind}, {_shape}, owner='caller')", "edge_faces": "arr(int, n_edge, 2, owner='caller', vspace='face')",
                     "n_edge": "n_edge"},
             requires=[_EF_OK],
             returns="opaque",
             ensures=[_q.format(body=f"eqr(result[{_lead}e], ite(edge_faces[e, 1] == FILL, 0, {_DIFF}))"),
                      f"shape(result)[-1] == n_edge"],
             options={"frames": True},
             raises=[("Exception", "False", "only_if")])

    _shape_n = "n_node" if _rank == 1 else "n_lead, n_node"
    contract(_G + "_calculate_edge_node_difference", props=["C16"], variant=_var,
             sizes=["n_node", "n_edge", "n_lead"],
             params={"d_var": f"arr({_kind}, {_shape_n}, owner='caller')", "edge_nodes": "arr(int, n_edge, 2, owner='caller', vspace='node')"},
             requires=["forall(0, n_edge, 0, 2, lambda e, t: 0 <= edge_nodes[e, t] and edge_nodes[e, t] < n_node)"],
             returns="opaque",
             ensures=[_q.format(body=f"eqr(result[{_lead}e], abs(d_var[{_lead}edge_nodes[e, 0]] - d_var[{_lead}edge_nodes[e, 1]]))")],
             options={"frames": True},
             raises=[("Exception", "False", "only_if")])

    # gradient (not normalised): difference / centre-to-centre distance, zero on boundary edges; the distance table of the
    # grid is read only (it is the grid's cached array)
    contract(_G + "_calculate_grad_on_edge_from_faces", props=["C16"], variant=_var,
             sizes=["n_face", "n_edge", "n_lead"],
             params={"d_var": f"arr({_kind}, {_shape}, owner='caller')", "edge_faces": "arr(int, n_edge, 2, owner='caller', vspace='face')",
                     "n_edge": "n_edge", "edge_face_distances": "arr(real, n_edge, owner='caller')", "normalize": "False"},
             requires=[_EF_OK, "forall(0, n_edge, lambda e: implies(edge_faces[e, 1] != FILL, edge_face_distances[e] > 0))"],
             returns="opaque",
             ensures=[_q.format(body=f"eqr(result[{_lead}e], ite(edge_faces[e, 1] == FILL, 0, {_DIFF} / edge_face_distances[e]))"),
                      "forall(0, n_edge, lambda e: edge_face_distances[e] == old(edge_face_distances)[e])"],
             options={"frames": True},
             raises=[("Exception", "False", "only_if")])
