"""shared spec functions (clause-language macros)"""
from pyvc.specs import defspec

# longitude interval membership; interval wraps through 0 when l0 > l1
defspec("inlon", ["l0", "l1", "x"],
        "ite(l0 <= l1, (l0 <= x) and (x <= l1), (x >= l0) or (x <= l1))")
# eastward width of [l0, l1] (both already in [0, 2pi])
defspec("lonwidth", ["l0", "l1"], "ite(l0 <= l1, l1 - l0, 2 * pi - l0 + l1)")
defspec("isclose_", ["a", "b", "atol"], "abs(a - b) <= atol + 1e-05 * abs(b)")
