"""Contracts: uxarray/remap (C12 "never invents values": every output is the value of the selected source element)"""
from pyvc.contracts import contract

# assumed: the neighbour search (sklearn tree + kind selection) returns, per destination point, k in-range indices of source
# elements (its correctness against brute force is the bounded part of C11 / C12)
contract("uxarray.remap.utils._remap_grid_parse", variant="caller_view", trusted=True, props=["C12"],
         params={"source_data": "opaque", "source_grid": "opaque", "destination_grid": "opaque", "coord_type": "opaque",
                 "remap_to": "opaque", "k": "int", "query": "bool"},
         returns="tuple(opaque, opaque, arr(int, n_dest))",
         ensures=["forall(0, n_dest, lambda d: 0 <= result[2][d] and result[2][d] < n_src)"],
         notes="k == 1 instance (index array squeezed to one dimension)")

for _rank, _shape, _post in ((1, "n_src", "forall(0, n_dest, lambda d: exists(0, n_src, lambda s: result[d] == source_data[s]))"),
                             (2, "n_lead, n_src", "forall(0, n_lead, 0, n_dest, lambda a, d: exists(0, n_src, lambda s: result[a, d] == source_data[a, s]))")):
    contract("uxarray.remap.nearest_neighbor._nearest_neighbor", props=["C12"], variant=f"rank{_rank}",
             sizes=["n_src", "n_dest", "n_lead"],
             size_constraints=["n_dest >= 2", "n_src >= 1"],   # a single destination point is a recorded finding (C12-F5)
             params={"source_grid": "opaque", "destination_grid": "opaque", "source_data": f"arr(real, {_shape})",
                     "remap_to": "opaque", "coord_type": "opaque"},
             returns="opaque",
             ensures=[
                 # every destination value is the value of ONE source element, for the same leading index (no invented values)
                 _post,
                 "shape(result)[-1] == n_dest"],
             options={"callee_variants": {"uxarray.remap.utils._remap_grid_parse": "caller_view"}},
             raises=[("Exception", "False", "only_if")])


# ---- _remap_grid_parse itself (dataflow, abstract mode): which coordinates of WHICH grid are searched, and with a tree that is
# rebuilt for this call (the source grid's coordinates may have been replaced since a tree was cached) ---------------------------------
_G = "uxarray.grid.grid.Grid."
_ACC = [_G + p for p in ("node_lon", "node_lat", "face_lon", "face_lat", "edge_lon", "edge_lat", "node_x", "node_y", "node_z",
                         "face_x", "face_y", "face_z", "edge_x", "edge_y", "edge_z", "n_node", "n_face", "n_edge")]
_KIND = {"nodes": "node", "face centers": "face", "edge centers": "edge"}
_N = "getitem(attr(source_data, 'shape'), -1)"
_IS = {k: f"same({_N}, summary('{_G}n_{v}', source_grid))" for k, v in _KIND.items()}
# python evaluates the element-count tests in this order; when counts coincide the first match decides
_SEL = {"nodes": _IS["nodes"], "face centers": f"(not {_IS['nodes']} and {_IS['face centers']})",
        "edge centers": f"(not {_IS['nodes']} and not {_IS['face centers']} and {_IS['edge centers']})"}
for _ct in ("spherical", "cartesian"):
    for _rt, _kd in _KIND.items():
        _cs = [f"attr(summary('{_G}{_kd}_{c}', destination_grid), 'values')" for c in (("lon", "lat") if _ct == "spherical" else ("x", "y", "z"))]
        _dest = f"attr(lib('numpy.vstack', [{', '.join(_cs)}]), 'T')"
        _ta = ("'spherical', 'haversine', True" if _ct == "spherical" else "'cartesian', 'minkowski', True")
        _ens = ["is_tuple(result)",
                # destination points: the requested element kind of the DESTINATION grid, in the requested coordinate system
                f"same(item(result, 0), {_dest})"]
        for _m, _c in _SEL.items():
            # neighbours: query of a tree over the SOURCE grid's elements of the kind the data live on, rebuilt for this call
            _q = f"meth('query', summary('{_G}get_ball_tree', source_grid, '{_m}', {_ta}), {_dest}, k=k)"
            _ens.append(f"implies({_c}, same(item(result, 1), item({_q}, 0)))")
        contract("uxarray.remap.utils._remap_grid_parse", props=["C12", "C10"], variant=f"{_ct},{_rt}",
                 params={"source_data": "opaque", "source_grid": "obj('Grid')", "destination_grid": "obj('Grid')", "coord_type": repr(_ct),
                         "remap_to": repr(_rt), "k": "opaque", "query": "True"},
                 returns="opaque", ensures=_ens,
                 options={"abstract": True, "summaries": _ACC + [_G + "get_ball_tree"]},
                 raises=[("ValueError", f"not ({_IS['nodes']} or {_IS['face centers']} or {_IS['edge centers']})", "iff")])


# ---- UxDataArray wrappers (C12 dataflow): remapped values come from the kernel applied to THIS array's grid and data, the result is
# attached to the DESTINATION grid with the last dimension renamed to the destination element kind ------------------------------------
_RN = "uxarray.remap.nearest_neighbor."
_RI = "uxarray.remap.inverse_distance_weighted."
_DIM = {"nodes": "n_node", "edge centers": "n_edge", "face centers": "n_face"}
for _rt, _dd in _DIM.items():
    for _d in (("n_node",), ("time", "n_face")):
        contract(_RN + "_nearest_neighbor_uxda", props=["C12"], variant=f"{_rt};dims=" + ",".join(_d),
                 params={"source_uxda": f"obj('UxDataArray', dims={_d!r})", "destination_grid": "obj('Grid')", "remap_to": repr(_rt),
                         "coord_type": "opaque"},
                 returns="opaque",
                 ensures=[f"same(result.values, summary('{_RN}_nearest_neighbor', source_uxda.uxgrid, destination_grid, source_uxda.values, "
                          f"'{_rt}', coord_type))",
                          "same(result.uxgrid, destination_grid)", f"result.dims == {list(_d[:-1]) + [_dd]!r}",
                          "same(result.name, source_uxda.name)"],
                 options={"abstract": True, "summaries": [_RN + "_nearest_neighbor"]},
                 raises=[("Exception", "False", "only_if")])

# remapping onto the grid the data already live on (the destination IS the source grid object): still a remap between element kinds
for _rt, _dd in _DIM.items():
    for _d in (("n_node",), ("time", "n_face")):
        for _fnq, _extra_p, _extra_a in ((_RN + "_nearest_neighbor_uxda", {}, ""),
                                         (_RI + "_inverse_distance_weighted_remap_uxda", {"power": "opaque", "k": "opaque"}, ", power, k")):
            _kern = _fnq[:-len("_uxda")]
            contract(_fnq, props=["C12"], variant=f"same_grid;{_rt};dims=" + ",".join(_d),
                     params={"source_uxda": f"obj('UxDataArray', dims={_d!r})", "destination_grid": "alias(source_uxda.uxgrid)",
                             "remap_to": repr(_rt), "coord_type": "opaque", **_extra_p},
                     returns="opaque",
                     ensures=[f"same(result.values, summary('{_kern}', source_uxda.uxgrid, source_uxda.uxgrid, source_uxda.values, "
                              f"'{_rt}', coord_type{_extra_a}))",
                              "same(result.uxgrid, source_uxda.uxgrid)", f"result.dims == {list(_d[:-1]) + [_dd]!r}"],
                     options={"abstract": True, "summaries": [_kern]},
                     raises=[("Exception", "False", "only_if")])

for _rt, _dd in _DIM.items():
    for _d in (("n_node",), ("time", "n_face")):
        contract(_RI + "_inverse_distance_weighted_remap_uxda", props=["C12"], variant=f"{_rt};dims=" + ",".join(_d),
                 params={"source_uxda": f"obj('UxDataArray', dims={_d!r})", "destination_grid": "obj('Grid')", "remap_to": repr(_rt),
                         "coord_type": "opaque", "power": "opaque", "k": "opaque"},
                 returns="opaque",
                 ensures=[f"same(result.values, summary('{_RI}_inverse_distance_weighted_remap', source_uxda.uxgrid, destination_grid, "
                          f"source_uxda.values, '{_rt}', coord_type, power, k))",
                          "same(result.uxgrid, destination_grid)", f"result.dims == {list(_d[:-1]) + [_dd]!r}",
                          "same(result.name, source_uxda.name)"],
                 options={"abstract": True, "summaries": [_RI + "_inverse_distance_weighted_remap"]},
                 raises=[("Exception", "False", "only_if")])
