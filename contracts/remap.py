"""Contracts: uxarray/remap (C12 "never invents values": every output is the value of the selected source element)"""
from pyvc.contracts import contract

# assumed: the neighbour search (sklearn tree + kind selection) returns, per destination point, k in-range indices of source
# elements (its correctness against brute force is the bounded part of C11 / C12)
contract("uxarray.remap.utils._remap_grid_parse", trusted=True, props=["C12"],
         params={"source_data": "opaque", "source_grid": "opaque", "destination_grid": "opaque", "coord_type": "opaque",
                 "remap_to": "opaque", "k": "int", "query": "bool"},
         returns="tuple(opaque, opaque, arr(int, n_dest))",
         ensures=["forall(0, n_dest, lambda d: 0 <= result[2][d] and result[2][d] < n_src)"],
         notes="k == 1 instance (index array squeezed to one dimension)")

for _rank, _shape, _post in ((1, "n_src", "forall(0, n_dest, lambda d: exists(0, n_src, lambda s: result[d] == source_data[s]))"),
                             (2, "n_lead, n_src", "forall(0, n_lead, 0, n_dest, lambda a, d: exists(0, n_src, lambda s: result[a, d] == source_data[a, s]))")):
    contract("uxarray.remap.nearest_neighbor._nearest_neighbor", props=["C12"], variant=f"rank{_rank}",
             sizes=["n_src", "n_dest", "n_lead"],
             size_constraints=["n_dest >= 2", "n_src >= 1"],   # a single destination point is a recorded finding (C12-F5)
             params={"source_grid": "opaque", "destination_grid": "opaque", "source_data": f"arr(real, {_shape})",
                     "remap_to": "opaque", "coord_type": "opaque"},
             returns="opaque",
             ensures=[
                 # every destination value is the value of ONE source element, for the same leading index (no invented values)
                 _post,
                 "shape(result)[-1] == n_dest"],
             raises=[("Exception", "False", "only_if")])
