"""Contracts: uxarray/grid/dual.py (C18)"""
from pyvc.contracts import contract, loop

# _order_nodes: the ordered ring is drawn from the faces meeting at the node - it never invents a corner, keeps the
# starting corner, and everything it does not fill stays padding.  (That it is a full permutation needs distinct angles in
# (0, 2pi) and is part of the bounded stand-in.)
_IN_TEMP = "exists(0, n_edges, lambda k: {x} == temp_face[k])"
contract("uxarray.grid.dual._order_nodes", props=["C18"],
         sizes=["n_edges", "max_edges", "n_dual"],
         size_constraints=["1 <= n_edges", "n_edges <= max_edges"],
         params={"temp_face": "arr(int, n_edges)", "node_0": "small(real, 3)", "node_central": "small(real, 3)", "n_edges": "n_edges",
                 "dual_node_x": "arr(real, n_dual)", "dual_node_y": "arr(real, n_dual)", "dual_node_z": "arr(real, n_dual)",
                 "max_edges": "max_edges"},
         requires=["forall(0, n_edges, lambda k: 0 <= temp_face[k] and temp_face[k] < n_dual)"],
         returns="arr(int, max_edges)",
         ensures=["shape(result) == (max_edges,)",
                  "result[0] == temp_face[0]",
                  "forall(0, max_edges, lambda j: result[j] == FILL or " + _IN_TEMP.format(x="result[j]") + ")",
                  "forall(n_edges, max_edges, lambda j: result[j] == FILL)"],
         loops={
             0: loop(counter="ja", invariants=["True"]),
             1: loop(counter="jb", invariants=[
                 "final_face[0] == temp_face[0]",
                 "forall(0, max_edges, lambda j: final_face[j] == FILL or " + _IN_TEMP.format(x="final_face[j]") + ")",
                 "forall(n_edges, max_edges, lambda j: final_face[j] == FILL)"]),
             2: loop(counter="kc", invariants=["ix_next_node == 0 - 1 or (1 <= ix_next_node and ix_next_node < n_edges)"]),
         },
         raises=[("Exception", "False", "only_if")])
