"""Contracts: uxarray/grid/dual.py (C18)"""
from pyvc.contracts import contract, loop

# _order_nodes: the ordered ring is drawn from the faces meeting at the node - it never invents a corner, keeps the
# starting corner, and everything it does not fill stays padding.  (That it is a full permutation needs distinct angles in
# (0, 2pi) and is part of the bounded stand-in.)
_IN_TEMP = "exists(0, n_edges, lambda k: {x} == temp_face[k])"


# angle of corner k (k >= 1) seen from the node, measured from the first corner, as the function defines it:
#   u = node_0 - node_central, v_k = dual[temp_face[k]] - node_central, side_k = (node_0 x node_central) . v_k
#   ang_k = acos(min(u . v_k / (|u| |v_k|), 1)), reflected to 2 pi - ang_k when side_k > 0
def _v(k, c):
    return f"(dual_node_{'xyz'[c]}[temp_face[{k}]] - node_central[{c}])"


_U3 = [f"(node_0[{c}] - node_central[{c}])" for c in range(3)]
_CR = ["(node_0[1]*node_central[2] - node_0[2]*node_central[1])", "(node_0[2]*node_central[0] - node_0[0]*node_central[2])",
       "(node_0[0]*node_central[1] - node_0[1]*node_central[0])"]


def _ang(k):
    side = " + ".join(f"{_CR[c]}*{_v(k, c)}" for c in range(3))
    dotuv = " + ".join(f"{_U3[c]}*{_v(k, c)}" for c in range(3))
    nu = "sqrt(" + " + ".join(f"{_U3[c]}*{_U3[c]}" for c in range(3)) + ")"
    nv = "sqrt(" + " + ".join(f"{_v(k, c)}*{_v(k, c)}" for c in range(3)) + ")"
    cosang = f"(({dotuv}) / ({nu} * {nv}))"
    base = f"acos(ite({cosang} > 1.0, 1.0, {cosang}))"
    return f"ite(0 + {side} > 0.0, 0 - {base} + 2.0 * pi, {base})"
contract("uxarray.grid.dual._order_nodes", props=["C18"],
         sizes=["n_edges", "max_edges", "n_dual"],
         size_constraints=["1 <= n_edges", "n_edges <= max_edges"],
         params={"temp_face": "arr(int, n_edges)", "node_0": "small(real, 3)", "node_central": "small(real, 3)", "n_edges": "n_edges",
                 "dual_node_x": "arr(real, n_dual)", "dual_node_y": "arr(real, n_dual)", "dual_node_z": "arr(real, n_dual)",
                 "max_edges": "max_edges"},
         requires=["forall(0, n_edges, lambda k: 0 <= temp_face[k] and temp_face[k] < n_dual)"],
         returns="arr(int, max_edges)",
         ensures=["shape(result) == (max_edges,)",
                  "result[0] == temp_face[0]",
                  "forall(0, max_edges, lambda j: result[j] == FILL or " + _IN_TEMP.format(x="result[j]") + ")",
                  "forall(n_edges, max_edges, lambda j: result[j] == FILL)",
                  # counter-clockwise: the corners that were placed appear in strictly increasing angle around the node
                  "forall(1, n_edges, lambda j: implies(result[j] != FILL, 1 <= pick[j] and pick[j] < n_edges and result[j] == temp_face[pick[j]]), "
                  "pattern=lambda j: result[j])",
                  "forall(1, n_edges, 1, n_edges, lambda j, h: implies(j < h and result[j] != FILL and result[h] != FILL, "
                  "ang(pick[j]) < ang(pick[h])), pattern=lambda j, h: (result[j], result[h]))"],
         loops={
             # every angle computed so far is the geometric angle of its corner (the starting corner has angle 0)
             0: loop(counter="ja", invariants=["d_angles[0] == 0",
                                               "forall(1, ja, lambda k: d_angles[k] == ang(k), pattern=lambda k: d_angles[k])"]),
             1: loop(counter="jb", invariants=[
                 "final_face[0] == temp_face[0]",
                 "forall(0, max_edges, lambda j: final_face[j] == FILL or " + _IN_TEMP.format(x="final_face[j]") + ")",
                 "forall(n_edges, max_edges, lambda j: final_face[j] == FILL)",
                 "forall(jb, n_edges, lambda j: final_face[j] == FILL)",
                 "0 <= d_current_angle",
                 # every corner placed so far: which corner it is (ghost pick), and its angle does not exceed the current one
                 "forall(1, jb, lambda j: implies(final_face[j] != FILL, 1 <= pick[j] and pick[j] < n_edges and "
                 "final_face[j] == temp_face[pick[j]] and ang(pick[j]) <= d_current_angle), pattern=lambda j: final_face[j])",
                 "forall(1, jb, 1, jb, lambda j, h: implies(j < h and final_face[j] != FILL and final_face[h] != FILL, "
                 "ang(pick[j]) < ang(pick[h])), pattern=lambda j, h: (final_face[j], final_face[h]))"],
                 ghost_init=["let pick = garray(n_edges, 'int')"]),
             2: loop(counter="kc", invariants=["ix_next_node == 0 - 1 or (1 <= ix_next_node and ix_next_node < n_edges and "
                                               "d_angles[ix_next_node] == d_next_angle and d_current_angle < d_next_angle)"]),
         },
         # the cell just written holds the geometric angle (proved without the quantified hypotheses, then used by the invariant)
         asserts={"before^for j in range(1, n_edges)#0": [f"defun ang(k) : real = {_ang('k')}"],
                  "after^if _cur_face_temp_idx is not#0": ["unfold ang(j)", "lemma d_angles[j] == ang(j)"],
                  "after:final_face[j] = temp_face[ix_next_node]": [
                      "assert ang(ix_next_node) == d_next_angle",
                      "assert forall(1, j, lambda h: implies(final_face[h] != FILL, ang(pick[h]) < d_next_angle), pattern=lambda h: final_face[h])",
                      "store pick, j, ix_next_node",
                      "assert ang(pick[j]) == d_next_angle"]},
         raises=[("Exception", "False", "only_if")])


# ---- get_dual (C18 dataflow): the dual grid is built from THIS grid's face centres (its nodes) and the faces construct_dual derives
# from THIS grid; a data array keeps its values and name, with the face and node dimensions exchanged, on that dual grid -------------
_G = "uxarray.grid.grid.Grid."
_DU = "uxarray.grid.dual."
_VAL = "uxarray.grid.validation._check_duplicate_nodes_indices"
_SUMM = [_G + "face_lon", _G + "face_lat", _G + "from_topology", _G + "hole_edge_indices", _DU + "construct_dual", _VAL]


def _dual_of(g):
    return (f"summary('{_G}from_topology', {g}, attr(summary('{_G}face_lon', {g}), 'values'), attr(summary('{_G}face_lat', {g}), 'values'), "
            f"summary('{_DU}construct_dual', {g}), None, 0, None, {{}})")


contract(_G + "get_dual", props=["C18"],
         params={"self": "obj('Grid')"}, returns="opaque",
         ensures=[f"same(result, {_dual_of('self')})"],
         options={"abstract": True, "summaries": _SUMM},
         raises=[("RuntimeError", "True", "only_if")])

for _d in (("n_node",), ("time", "n_face"), ("n_face", "lev")):
    _swap = {"n_face": "n_node", "n_node": "n_face"}
    contract("uxarray.core.dataarray.UxDataArray.get_dual", props=["C18"], variant="dims=" + ",".join(_d),
             params={"self": f"obj('UxDataArray', dims={_d!r})"}, returns="opaque",
             ensures=[f"same(result.uxgrid, {_dual_of('self.uxgrid')})",
                      f"result.dims == {[_swap.get(x, x) for x in _d]!r}",
                      "same(result.name, self.name)",
                      # a copy of the values, position by position
                      ("forall(0, shape(self.values)[0], lambda i: result.values[i] == self.values[i])" if len(_d) == 1 else
                       "forall(0, shape(self.values)[0], 0, shape(self.values)[1], lambda i, j: result.values[i, j] == self.values[i, j])")],
             options={"abstract": True, "summaries": _SUMM},
             raises=[("RuntimeError", "True", "only_if")])


# ---- construct_faces: one dual face per primal node of valence >= 3, in node order; row rank(i) = number of such nodes before i.
# Each row is what _order_nodes returns for THAT node's faces (by _order_nodes' contract): it starts at the node's first face,
# holds only faces meeting at the node, and is padding beyond the node's valence.
_RANK = "count({i}, lambda k: n_edges[k] > 2)"
_IN_ROW = "exists(0, n_edges[i], lambda k: {x} == node_face_connectivity[i, k])"
contract(_DU + "construct_faces", props=["C18"],
         sizes=["n_node", "max_edges", "n_dual"],
         size_constraints=["1 <= n_node", "1 <= max_edges"],
         params={"n_node": "n_node", "n_edges": "arr(int, n_node)",
                 "dual_node_x": "arr(real, n_dual)", "dual_node_y": "arr(real, n_dual)", "dual_node_z": "arr(real, n_dual)",
                 "node_face_connectivity": "arr(int, n_node, max_edges)",
                 "node_x": "arr(real, n_node)", "node_y": "arr(real, n_node)", "node_z": "arr(real, n_node)"},
         requires=["forall(0, n_node, lambda i: 0 <= n_edges[i] and n_edges[i] <= max_edges)",
                   "forall(0, n_node, 0, max_edges, lambda i, k: implies(k < n_edges[i], 0 <= node_face_connectivity[i, k] and "
                   "node_face_connectivity[i, k] < n_dual))"],
         returns="arr(int, " + _RANK.format(i="n_node") + ", max_edges)",
         ensures=["shape(result) == (" + _RANK.format(i="n_node") + ", max_edges)",
                  "forall(0, n_node, lambda i: implies(n_edges[i] > 2, result[" + _RANK.format(i="i") + ", 0] == node_face_connectivity[i, 0]))",
                  "forall(0, n_node, 0, max_edges, lambda i, j: implies(n_edges[i] > 2, result[" + _RANK.format(i="i") + ", j] == FILL or "
                  + _IN_ROW.format(x="result[" + _RANK.format(i="i") + ", j]") + "))",
                  "forall(0, n_node, 0, max_edges, lambda i, j: implies(n_edges[i] > 2 and j >= n_edges[i], result[" + _RANK.format(i="i") + ", j] == FILL))"],
         loops={0: loop(counter="i", invariants=[
             "i - correction == " + _RANK.format(i="i"),
             "forall(0, i, lambda h: implies(n_edges[h] > 2, construct_node_face_connectivity[" + _RANK.format(i="h") + ", 0] == node_face_connectivity[h, 0]))",
             "forall(0, i, 0, max_edges, lambda h, j: implies(n_edges[h] > 2, construct_node_face_connectivity[" + _RANK.format(i="h") + ", j] == FILL or "
             "exists(0, n_edges[h], lambda k: construct_node_face_connectivity[" + _RANK.format(i="h") + ", j] == node_face_connectivity[h, k])))",
             "forall(0, i, 0, max_edges, lambda h, j: implies(n_edges[h] > 2 and j >= n_edges[h], construct_node_face_connectivity[" + _RANK.format(i="h") + ", j] == FILL))",
         ]),
             1: loop(counter="kk", invariants=["index == kk",
                                               "forall(0, kk, lambda k: temp_face[k] == node_face_connectivity[i, k])"])},
         asserts={"after:construct_node_face_connectivity[i - correction] = _face": [
             # the rows written earlier lie strictly above... below the row just written: their rank is smaller
             "assert forall(0, i, lambda h: implies(n_edges[h] > 2, " + _RANK.format(i="h") + " < i - correction))",
             "assert forall(0, max_edges, lambda j: construct_node_face_connectivity[i - correction, j] == _face[j])",
             "assert forall(0, max_edges, lambda j: _face[j] == FILL or exists(0, n_edges[i], lambda k: _face[j] == node_face_connectivity[i, k]))",
         ]},
         raises=[("Exception", "False", "only_if")])


# ---- construct_dual (C18 dataflow): the dual faces are built by construct_faces from THIS grid's face centres (dual nodes), node
# positions and node_face_connectivity, with the valence of node i = the number of real (non-padding) entries of row i
_NFC = f"attr(summary('{_G}node_face_connectivity', grid), 'values')"
contract(_DU + "construct_dual", props=["C18"],
         params={"grid": "obj('Grid')"}, returns="opaque",
         ensures=[f"same(result, summary('{_DU}construct_faces', summary('{_G}n_node', grid), "
                  f"lib('numpy.sum', {_NFC} != FILL, axis=1), "
                  + ", ".join(f"attr(summary('{_G}face_{c}', grid), 'values')" for c in "xyz") + f", {_NFC}, "
                  + ", ".join(f"attr(summary('{_G}node_{c}', grid), 'values')" for c in "xyz") + "))"],
         options={"abstract": True, "summaries": [_DU + "construct_faces"] + [_G + a for a in
                  ("n_node", "node_face_connectivity", "face_x", "face_y", "face_z", "node_x", "node_y", "node_z")]},
         raises=[("Exception", "False", "only_if")])
