"""Contracts: uxarray/io/_ugrid.py:_encode_ugrid (C07 self-consistency of the encoded dataset; C08 / C19 frames)"""
from pyvc.contracts import contract

_GT = "entry(result.vars, 'grid_topology').attrs"
_REFS = [  # (attribute of grid_topology, names it refers to)
    ("node_coordinates", ["node_lon", "node_lat"]),
    ("face_coordinates", ["face_lon", "face_lat"]),
    ("edge_coordinates", ["edge_lon", "edge_lat"]),
] + [(c, [c]) for c in ("face_node_connectivity", "face_edge_connectivity", "face_face_connectivity", "edge_node_connectivity",
                        "edge_face_connectivity", "node_edge_connectivity", "node_face_connectivity")]

contract("uxarray.io._ugrid._encode_ugrid", props=["C07", "C08", "C19"],
         params={"ds": "obj('Dataset', owner='caller')"},
         requires=[
             # representation invariant of a Grid's dataset: node coordinates and face-node table exist, centre coordinates
             # are populated in lon/lat pairs
             "has(ds.vars, 'node_lon') and has(ds.vars, 'node_lat') and has(ds.vars, 'face_node_connectivity')",
             "iff(has(ds.vars, 'face_lon'), has(ds.vars, 'face_lat'))", "iff(has(ds.vars, 'edge_lon'), has(ds.vars, 'edge_lat'))"],
         returns="opaque",
         ensures=[
             "has(result.vars, 'grid_topology')",
             # from the property: every variable / coordinate / dimension named by the topology metadata exists in the dataset
             *[f"implies(has({_GT}, '{a}'), " + " and ".join(f"has(result.vars, '{v}')" for v in vs) + ")" for a, vs in _REFS],
             f"implies(has({_GT}, 'edge_dimension'), has(result.dims, 'n_edge'))",
             # ... and the optional parts that exist are named
             f"implies(has(result.vars, 'face_lon'), has({_GT}, 'face_coordinates'))",
             f"implies(has(result.vars, 'edge_node_connectivity'), has({_GT}, 'edge_node_connectivity'))",
             # internal helper objects do not travel with the encoded dataset (they cannot be written to NetCDF)
             "implies(has(result.vars, 'edge_node_connectivity'), not has(entry(result.vars, 'edge_node_connectivity').attrs, 'inverse_indices') "
             "and not has(entry(result.vars, 'edge_node_connectivity').attrs, 'fill_value_mask'))",
             "implies(has(result.vars, 'bounds'), not has(entry(result.vars, 'bounds').attrs, 'latitude_intervalsIndex') "
             "and not has(entry(result.vars, 'bounds').attrs, 'latitude_intervals_name_map'))",
             # the caller's dataset is not the one returned
             "not same(result, ds)",
         ],
         # frames: nothing owned by the caller (the Grid's dataset) or by a module (conventions.ugrid templates) is stored into
         options={"frames": True},
         raises=[("Exception", "False", "only_if")])


# ---- Grid.to_xarray / Grid.encode_as (C07): each format name goes to its own encoder, fed with THIS grid's dataset / tables ------------
_GG = "uxarray.grid.grid.Grid."
_ENC = {"ugrid": "uxarray.io._ugrid._encode_ugrid", "exodus": "uxarray.io._exodus._encode_exodus", "scrip": "uxarray.io._scrip._encode_scrip"}
_ACCS = [_GG + a for a in ("face_node_connectivity", "node_lon", "node_lat", "face_areas")]


def _enc_term(fmt):
    if fmt == "scrip":
        return (f"summary('{_ENC['scrip']}', " + ", ".join(f"summary('{_GG}{a}', self)" for a in ("face_node_connectivity", "node_lon", "node_lat",
                                                                                                     "face_areas")) + ")")
    return f"summary('{_ENC[fmt]}', self._ds" + (", None" if fmt == "exodus" else "") + ")"


for _api, _names, _exc in (("to_xarray", {"ugrid": "ugrid", "exodus": "exodus", "scrip": "scrip", "bogus": None}, "ValueError"),
                           ("encode_as", {"UGRID": "ugrid", "Exodus": "exodus", "SCRIP": "scrip", "bogus": None}, "RuntimeError")):
    for _nm, _fmt in _names.items():
        contract(_GG + _api, props=["C07"], variant=_nm,
                 params={"self": "obj('Grid')", ("grid_format" if _api == "to_xarray" else "grid_type"): repr(_nm)},
                 returns="opaque",
                 ensures=[f"same(result, {_enc_term(_fmt)})"] if _fmt else [],
                 options={"abstract": True, "summaries": list(_ENC.values()) + _ACCS},
                 raises=[(_exc, str(_fmt is None), "iff")])
