"""Contract: uxarray/io/_ugrid.py:_standardize_connectivity (C01: UGRID connectivity tables come out zero-based, padded with the
standard fill value only, whatever index base / fill value the file declares)"""
from pyvc.contracts import contract

_V = "entry(ds.vars, 'face_node_connectivity')"
_NEW, _OLD = f"{_V}.data", f"old({_V}.data)"
_HAS_FV, _HAS_SI = f"old(has({_V}.attrs, '_FillValue'))", f"old(has({_V}.attrs, 'start_index'))"
_FV, _SI = f"old(attr_or({_V}.attrs, '_FillValue', 0))", f"old(attr_or({_V}.attrs, 'start_index', 0))"
_PAD = f"({_HAS_FV} and {_OLD}[f, j] == {_FV})"
contract("uxarray.io._ugrid._standardize_connectivity", props=["C01", "C19", "C07"],
         sizes=["n", "W"],
         params={"ds": "obj('Dataset', owner='self', vars={'face_node_connectivity': \"arr(int, n, W, owner='caller')\"}, "
                       "attrs={'face_node_connectivity': {'_FillValue': 'absent_or(int)', 'start_index': 'absent_or(int)'}})",
                 "conn_name": "'face_node_connectivity'"},
         requires=[
             # well-formed source: the standard fill value is not used as a real index, declared values fit the index type
             f"forall(0, n, 0, W, lambda f, j: {_V}.data[f, j] != FILL or (has({_V}.attrs, '_FillValue') and attr_or({_V}.attrs, '_FillValue', 0) == FILL))",
             f"implies(has({_V}.attrs, '_FillValue'), INT_MIN <= attr_or({_V}.attrs, '_FillValue', 0) and attr_or({_V}.attrs, '_FillValue', 0) <= INT_MAX)"]
             + [f"forall(0, n, 0, W, lambda f, j: INT_MIN <= {_V}.data[f, j] and {_V}.data[f, j] <= INT_MAX)",
                # a declared index base is a lower bound of the real indices
                f"implies(has({_V}.attrs, 'start_index'), forall(0, n, 0, W, lambda f, j: "
                f"(has({_V}.attrs, '_FillValue') and {_V}.data[f, j] == attr_or({_V}.attrs, '_FillValue', 0)) or "
                f"{_V}.data[f, j] >= attr_or({_V}.attrs, 'start_index', 0)))"],
         returns="opaque",
         ensures=[
             # padding: exactly the entries holding the declared fill value
             f"forall(0, n, 0, W, lambda f, j: iff({_NEW}[f, j] == FILL, {_PAD}))",
             # declared base: every real index is shifted by it
             f"implies({_HAS_SI}, forall(0, n, 0, W, lambda f, j: implies(not {_PAD}, {_NEW}[f, j] == {_OLD}[f, j] - {_SI})))",
             # no declared base: real indices keep their differences and the smallest becomes 0
             f"implies(not {_HAS_SI}, forall(0, n, 0, W, 0, n, 0, W, lambda f, j, g, k: implies(not {_PAD} and not ({_HAS_FV} and {_OLD}[g, k] == {_FV}), "
             f"{_NEW}[f, j] - {_NEW}[g, k] == {_OLD}[f, j] - {_OLD}[g, k])))",
             # the caller's buffer is left as it was
             f"forall(0, n, 0, W, lambda f, j: {_OLD}[f, j] == old({_V}.data)[f, j])"],
         options={"frames": True},
         raises=[("Exception", "False", "only_if")])
