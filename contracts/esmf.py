"""Contract: uxarray/io/_esmf.py:_read_esmf (C01 "face_node_connectivity, whatever the reader, is the source's faces in standard form:
zero-based, padded with INT_FILL_VALUE exactly beyond each face's own corner count, same corner order")"""
from pyvc.contracts import contract, loop

_SRC = "entry(in_ds.vars, 'elementConn').data"
_NPF = "entry(in_ds.vars, 'numElementConn').data"
_OUT = "entry(result[0].vars, 'face_node_connectivity').data"
# the index base the file declares (ESMF default: 1)
_START = "ite(has(entry(in_ds.vars, 'elementConn').attrs, 'start_index'), entry(in_ds.vars, 'elementConn').attrs['start_index'], 1)"

contract("uxarray.io._esmf._read_esmf", props=["C01", "C19"],
         sizes=["n_face", "W"],
         params={"in_ds": "obj('Dataset', owner='caller', vars={'elementConn': 'arr(int, n_face, W)', 'numElementConn': 'arr(int, n_face)'}, "
                          "attrs={'elementConn': {'start_index': 'absent_or(int)'}}, opaque_vars=('nodeCoords', 'centerCoords'))"},
         requires=[f"forall(0, n_face, lambda f: 0 <= {_NPF}[f] and {_NPF}[f] <= W)"],
         returns="opaque",
         ensures=["is_tuple(result)",
                  "has(result[0].vars, 'face_node_connectivity') and has(result[0].vars, 'n_nodes_per_face')",
                  # corner j of face f: the source's index minus the declared base; padding exactly beyond the face's own count
                  f"forall(0, n_face, 0, W, lambda f, j: {_OUT}[f, j] == ite(j < {_NPF}[f], {_SRC}[f, j] - {_START}, FILL))",
                  f"forall(0, n_face, lambda f: entry(result[0].vars, 'n_nodes_per_face').data[f] == {_NPF}[f])",
                  # the caller's arrays are left as they were
                  f"forall(0, n_face, 0, W, lambda f, j: {_SRC}[f, j] == old({_SRC})[f, j])"],
         loops={0: loop(counter="fi", invariants=[
             f"forall(0, fi, 0, W, lambda f, j: face_node_connectivity[f, j] == ite(j < {_NPF}[f], {_SRC}[f, j] - start_index, FILL))",
             f"forall(fi, n_face, 0, W, lambda f, j: face_node_connectivity[f, j] == {_SRC}[f, j])"])},
         options={"frames": True, "abstract": True},
         raises=[("ValueError", "not same(attr(entry(in_ds.vars, 'nodeCoords'), 'units'), 'degrees')", "iff")])
