"""Contracts: GeoDataFrame conversion plumbing (C15) - "the result of a conversion depends only on its arguments, never on earlier
conversions of the same grid".

Stated as a non-interference (2-safety) condition over the real function body: `depends_only(e, a1..an)` holds when, in any two
executions of the same path that agree on a1..an, e has the same value; cache slots of the grid and everything else the body
reads are renamed apart in the second copy.  The geometry builders are summarised as deterministic functions of their arguments
(their per-face correctness is the subject of the bounded stand-in `geometry` and of the _pad_closed_face_nodes proof)."""
from pyvc.contracts import contract

_GEO = "uxarray.grid.geometry."
_G = "uxarray.grid.grid.Grid."
_SUMMARIES = [_GEO + "_correct_central_longitude", _GEO + "_build_polygon_shells", _GEO + "_build_antimeridian_face_indices",
              _GEO + "_build_geodataframe_with_antimeridian", _GEO + "_build_geodataframe_without_antimeridian",
              # stable accessors of the grid (never change over a grid's life: C08)
              _G + "node_lon", _G + "node_lat", _G + "face_node_connectivity", _G + "n_face", _G + "n_max_face_nodes",
              _G + "n_nodes_per_face"]

for _pe in ("split", "ignore", "exclude"):
    for _eng in ("geopandas", "spatialpandas"):
        contract(_GEO + "_grid_to_polygon_geodataframe", props=["C15"], variant=f"{_pe},{_eng}",
                 params={"grid": "obj('Grid')", "periodic_elements": repr(_pe), "projection": "optional(opaque)", "project": "bool",
                         "engine": repr(_eng)},
                 returns="tuple(opaque, opaque)",
                 ensures=[
                     # the frame and the NaN side table are functions of the grid (its source) and this call's arguments only
                     "depends_only(result[0], grid, projection, project)",
                     "depends_only(result[1], grid, projection, project)",
                     # so is the antimeridian side table left on the grid, which UxDataArray.to_geodataframe reads back to drop
                     # the data values of excluded faces
                     "depends_only(grid._gdf_cached_parameters['antimeridian_face_indices'], grid, projection, project)"],
                 options={"abstract": True, "summaries": _SUMMARIES, "frames": True},
                 raises=[("Exception", "False", "only_if")])

# ---- Grid.to_geodataframe: the cache never changes what a call returns ------------------------------------------------------------
# fresh_gdf / fresh_nnpi are ghost spec functions DEFINED by the cache-miss branch of the method itself (`define`, whose obligation is
# that the value built there is a function of exactly the cache key - over all pairs of paths).  The representation invariant says the
# cache holds fresh_*(its own key); the postcondition says every call returns fresh_*(this call's arguments), hit or miss.
_C = "self._gdf_cached_parameters"
_KEY = "self, {pe}, {proj}, {eng}, {excl}, {prj}"
_CK = _KEY.format(pe=f"{_C}['periodic_elements']", proj=f"{_C}['projection']", eng=f"{_C}['engine']", excl=f"{_C}['exclude_nan_polygons']",
                  prj=f"{_C}['project']")
_INV_GDF = (f"isnone({_C}['gdf']) or (same({_C}['gdf'], uf('fresh_gdf', {_CK})) and "
            f"same({_C}['non_nan_polygon_indices'], uf('fresh_nnpi', {_CK})))")
# the periodic_elements value in force (the deprecated exclude_antimeridian flag overrides it)
_PE = "ite(isnone(exclude_antimeridian), periodic_elements, ite(exclude_antimeridian, 'exclude', 'split'))"
_PRJ = "getdefault(kwargs, 'project', True)"
_AK = _KEY.format(pe=_PE, proj="projection", eng="engine", excl="exclude_nan_polygons", prj=_PRJ)
_DEFARGS = "self, periodic_elements, projection, engine, exclude_nan_polygons, project"
contract(_G + "to_geodataframe", props=["C15", "C08"],
         params={"self": "obj('Grid')", "periodic_elements": "choice('ignore', 'exclude', 'split', 'bogus')",
                 "projection": "optional(opaque)", "cache": "bool", "override": "bool",
                 "engine": "choice('spatialpandas', 'geopandas', 'bogus')", "exclude_antimeridian": "choice(None, True, False)",
                 "return_non_nan_polygon_indices": "bool", "exclude_nan_polygons": "bool",
                 "kwargs": {"project": "absent_or(bool)"}},
         requires=[_INV_GDF],
         returns="opaque",
         asserts={"after:if exclude_nan_polygons and non_nan_polygon_indices is not None:": [
             f"define fresh_gdf({_DEFARGS}) = gdf",
             f"define fresh_nnpi({_DEFARGS}) = non_nan_polygon_indices"]},
         ensures=[f"implies(not return_non_nan_polygon_indices, same(result, uf('fresh_gdf', {_AK})))",
                  f"implies(return_non_nan_polygon_indices, is_tuple(result) and same(item(result, 0), uf('fresh_gdf', {_AK})) "
                  f"and same(item(result, 1), uf('fresh_nnpi', {_AK})))",
                  _INV_GDF],
         options={"abstract": True, "summaries": [_GEO + "_grid_to_polygon_geodataframe"]},
         raises=[("ValueError", "engine == 'bogus' or (isnone(exclude_antimeridian) and periodic_elements == 'bogus') or "
                                f"(not isnone(projection) and {_PRJ} and periodic_elements == 'split')", "iff")])


# ---- _build_antimeridian_face_indices (C15): exactly the faces with an edge spanning AT LEAST 180 degrees of longitude, increasing ------
_CROSS = "exists(0, w - 1, lambda j: abs(shells_x[{f}, j + 1] - shells_x[{f}, j]) >= 180)"
contract(_GEO + "_build_antimeridian_face_indices", props=["C15"],
         sizes=["n_face", "w"], size_constraints=["2 <= w"],
         params={"shells_x": "arr(real, n_face, w)", "projection": "None"},
         returns="arr(int, n_cross)",
         ensures=["forall(0, len(result), lambda t: 0 <= result[t] and result[t] < n_face and " + _CROSS.format(f="result[t]") + ")",
                  "forall(0, n_face, lambda f: implies(" + _CROSS.format(f="f") + ", exists(0, len(result), lambda t: result[t] == f)))",
                  "forall(0, len(result), 0, len(result), lambda t, u: implies(t < u, result[t] < result[u]))"],
         raises=[("Exception", "False", "only_if")])
