"""Contracts: uxarray/core/aggregation.py (C17)"""
from pyvc.contracts import contract

_A = "uxarray.core.aggregation."
_ENC = "uxda.uxgrid.edge_node_connectivity.values"

# node -> edge: for every leading index and every edge, the reduction over exactly the edge's two nodes
for _d, _post in ((("n_node",), "forall(0, len({e}), lambda e: eqr(result[e], agg(lambda t: uxda.values[{e}[e, t]], 2)))"),
                  (("time", "n_node"), "forall(0, shape(uxda.values)[0], 0, len({e}), lambda k, e: eqr(result[k, e], "
                                       "agg(lambda t: uxda.values[k, {e}[e, t]], 2)))")):
    contract(_A + "_apply_node_to_edge_aggregation_numpy", props=["C17"], variant="dims=" + ",".join(_d),
             params={"uxda": f"obj('UxDataArray', dims={_d!r})", "aggregation_func": "obj('AggFn')", "aggregation_func_kwargs": {}},
             requires=[f"forall(0, len({_ENC}), 0, 2, lambda e, t: 0 <= {_ENC}[e, t] and {_ENC}[e, t] < shape(uxda.values)[{len(_d) - 1}])"],
             returns="opaque",
             ensures=[_post.replace("{e}", _ENC)],
             raises=[("Exception", "False", "only_if")])
