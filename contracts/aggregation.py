"""Contracts: uxarray/core/aggregation.py (C17)"""
from pyvc.contracts import contract

_A = "uxarray.core.aggregation."
_ENC = "uxda.uxgrid.edge_node_connectivity.values"

# node -> edge: for every leading index and every edge, the reduction over exactly the edge's two nodes
for _d, _post in ((("n_node",), "forall(0, len({e}), lambda e: eqr(result[e], agg(lambda t: uxda.values[{e}[e, t]], 2)))"),
                  (("time", "n_node"), "forall(0, shape(uxda.values)[0], 0, len({e}), lambda k, e: eqr(result[k, e], "
                                       "agg(lambda t: uxda.values[k, {e}[e, t]], 2)))")):
    contract(_A + "_apply_node_to_edge_aggregation_numpy", props=["C17"], variant="dims=" + ",".join(_d),
             params={"uxda": f"obj('UxDataArray', dims={_d!r})", "aggregation_func": "obj('AggFn')", "aggregation_func_kwargs": {}},
             requires=[f"forall(0, len({_ENC}), 0, 2, lambda e, t: 0 <= {_ENC}[e, t] and {_ENC}[e, t] < shape(uxda.values)[{len(_d) - 1}])"],
             returns="opaque",
             ensures=[_post.replace("{e}", _ENC)],
             raises=[("Exception", "False", "only_if")])

# ---------------------------------------------------------------------------------------------
# node -> face.  get_face_node_partitions groups the faces by their number of corners (assumed contract, DESIGN B.6);
# _apply_node_to_face_aggregation_numpy is proved on top of it.
# ---------------------------------------------------------------------------------------------
from pyvc.contracts import loop

contract("uxarray.grid.connectivity.get_face_node_partitions", trusted=True, props=["C17"],
         params={"n_nodes_per_face": "arr(int, n_f)"},
         sizes=["n_f"],
         returns="tuple(arr(int, n_part + 1), arr(int, n_f), arr(int, n_part), arr(int, n_part))",
         ghost_returns={"pinv": "arr(int, n_f)"},
         ensures=[
             "n_part >= 0",
             # change_ind: block boundaries 0 = c[0] <= c[1] <= ... <= c[n_part] = n_f
             "result[0][0] == 0 and result[0][n_part] == n_f",
             "forall(0, n_part + 1, lambda p: 0 <= result[0][p] and result[0][p] <= n_f)",
             "forall(0, n_part + 1, 0, n_part + 1, lambda p, q: implies(p <= q, result[0][p] <= result[0][q]))",
             # sizes of the blocks are admissible corner counts (they are values of n_nodes_per_face)
             "forall(0, n_part, lambda p: result[0][p] < result[0][p + 1])",
             "forall(0, n_part, lambda p: n_nodes_per_face[result[1][result[0][p]]] == result[2][p])",
             # sorted_ind is a permutation of the faces (pinv its inverse) ...
             "forall(0, n_f, lambda t: 0 <= result[1][t] and result[1][t] < n_f and pinv[result[1][t]] == t)",
             "forall(0, n_f, lambda f: 0 <= pinv[f] and pinv[f] < n_f and result[1][pinv[f]] == f)",
             # ... and every face of block p has exactly element_sizes[p] corners
             "forall(0, n_part, 0, n_f, lambda p, t: implies(result[0][p] <= t and t < result[0][p + 1], "
             "n_nodes_per_face[result[1][t]] == result[2][p]))",
         ],
         notes="argsort / unique(return_counts) / cumsum pipeline: assumed here, bounded check in the C17 stand-in")

_F = "uxda.uxgrid.face_node_connectivity.values"
_NPF = "uxda.uxgrid.n_nodes_per_face.values"
_AGGF = {1: "agg(lambda t: uxda.values[{F}[f, t]], {N}[f])", 2: "agg(lambda t: uxda.values[k, {F}[f, t]], {N}[f])"}
for _d in (("n_node",), ("time", "n_node")):
    _r = len(_d)
    _lead = "" if _r == 1 else "k, "
    _q = "forall(0, uxda.uxgrid.n_face, lambda f: {b})" if _r == 1 else "forall(0, shape(uxda.values)[0], 0, uxda.uxgrid.n_face, lambda k, f: {b})"
    _spec = _AGGF[_r].format(F=_F, N=_NPF)
    contract(_A + "_apply_node_to_face_aggregation_numpy", props=["C17"], variant="dims=" + ",".join(_d),
             params={"uxda": f"obj('UxDataArray', dims={_d!r})", "aggregation_func": "obj('AggFn')", "aggregation_func_kwargs": {}},
             sizes=["n_part"],
             requires=[
                 # standard form of the face-node table: npf real corners (in-range node indices) per face, at most the table width
                 f"forall(0, uxda.uxgrid.n_face, lambda f: 1 <= {_NPF}[f] and {_NPF}[f] <= uxda.uxgrid.n_max_face_nodes)",
                 f"forall(0, uxda.uxgrid.n_face, 0, uxda.uxgrid.n_max_face_nodes, lambda f, t: implies(t < {_NPF}[f], "
                 f"0 <= {_F}[f, t] and {_F}[f, t] < shape(uxda.values)[{_r - 1}]))"],
             returns="opaque",
             ensures=[
                 # from the property: for each face and leading index, the reduction over exactly that face's corner nodes
                 _q.format(b=f"eqr(result[{_lead}f], {_spec})")],
             # proof staging (ghost code, anchored at the scatter statement): what the scatter did to the faces of this block
             # and that it left the faces of earlier blocks alone
             asserts={
                 "before:result[..., face_inds] = aggregation_par": ["let res0 = snapshot(result)"],
                 "after:result[..., face_inds] = aggregation_par": [
                     "assert " + _q.format(b=f"implies(start <= pinv[f] and pinv[f] < end, eqr(result[{_lead}f], aggregation_par[{_lead}pinv[f] - start]))"),
                     "assert " + _q.format(b=f"implies(pinv[f] < start, eqr(result[{_lead}f], res0[{_lead}f]))"),
                 ]},
             loops={0: loop(counter="p", invariants=[
                 _q.format(b=f"implies(pinv[f] < change_ind[p], eqr(result[{_lead}f], {_spec}))"),
                 "0 <= p and p <= n_part"])},
             raises=[("Exception", "False", "only_if")])


# ---- the public wrappers (C17 dataflow): the reduction's result is handed on unchanged (no cast back to the source dtype, no
# re-ordering), attached to the same grid, with the node dimension renamed to the destination element's ------------------------------
_AG = "uxarray.core.aggregation."
for _dst in ("face", "edge"):
    for _dims in (("n_node",), ("time", "n_node"), ("n_face",)):
        _ok = _dims[-1] == "n_node"
        _red = f"summary('{_AG}_apply_node_to_{_dst}_aggregation_numpy', uxda, lib_ref('numpy.mean'), aggregation_func_kwargs)"
        contract(_AG + f"_node_to_{_dst}_aggregation", props=["C17"], variant="dims=" + ",".join(_dims),
                 params={"uxda": f"obj('UxDataArray', dims={_dims!r})", "aggregation": "'mean'", "aggregation_func_kwargs": "opaque"},
                 returns="opaque",
                 ensures=([f"same(result.values, {_red})", "same(result.uxgrid, uxda.uxgrid)", "same(result.name, uxda.name)",
                           f"result.dims == {tuple(_dims[:-1]) + ('n_' + _dst,)!r}"] if _ok else []),
                 options={"abstract": True, "summaries": [_AG + f"_apply_node_to_{_dst}_aggregation_numpy"]},
                 raises=[("ValueError", str(not _ok), "iff")])


# get_face_node_partitions, dataflow / frame view (C02, C17): everything it returns is computed from the face sizes it is handed, and the
# array it is handed (the grid's own n_nodes_per_face) is only read
contract("uxarray.grid.connectivity.get_face_node_partitions", props=["C02", "C17"], variant="frame",
         params={"n_nodes_per_face": "opaque"}, returns="opaque",
         ensures=["is_tuple(result)",
                  "same(item(result, 1), lib('numpy.argsort', n_nodes_per_face))"],
         options={"abstract": True, "frames": True},
         raises=[("Exception", "False", "only_if")])
