"""Contracts: edge distances (C16) -- uxarray/grid/neighbors.py"""
from pyvc.contracts import contract

# great-circle distance of two points given in degrees, as the spherical law of cosines writes it.
# Property: "edge_node_distances[e] is the great-circle distance between edge e's two nodes".  The law-of-cosines
# argument equals the dot product of the two unit vectors (lemma gc_dot below), so acos(arg) is the angle between them.
_GC = ("acos(sin(deg2rad({lat}[{a}])) * sin(deg2rad({lat}[{b}])) + cos(deg2rad({lat}[{a}])) * cos(deg2rad({lat}[{b}])) "
       "* cos(deg2rad({lon}[{a}]) - deg2rad({lon}[{b}])))")

contract("uxarray.grid.neighbors._construct_edge_node_distances", props=["C16"],
         sizes=["n_node", "n_edge"],
         params={"node_lon": "arr(real, n_node, unit='deg', space='node')", "node_lat": "arr(real, n_node, unit='deg', space='node')",
                 "edge_nodes": "arr(int, n_edge, 2, space='edge', vspace='node')"},
         requires=["forall(0, n_edge, lambda e: 0 <= edge_nodes[e, 0] and edge_nodes[e, 0] < n_node and "
                   "0 <= edge_nodes[e, 1] and edge_nodes[e, 1] < n_node)"],
         returns="arr(real, n_edge)",
         ensures=["shape(result) == (n_edge,)",
                  "forall(0, n_edge, lambda e: eqr(result[e], "
                  + _GC.format(lat="node_lat", lon="node_lon", a="edge_nodes[e, 0]", b="edge_nodes[e, 1]") + "))"],
         raises=[("Exception", "False", "only_if")])

contract("uxarray.grid.neighbors._construct_edge_face_distances", props=["C16"],
         sizes=["n_face", "n_edge"],
         # the parameters are NAMED node_lon/node_lat in the source, but by the property they must be laid out over
         # faces (they are indexed with face ids): space='face'
         params={"node_lon": "arr(real, n_face, unit='deg', space='face')", "node_lat": "arr(real, n_face, unit='deg', space='face')",
                 "edge_faces": "arr(int, n_edge, 2, space='edge', vspace='face')"},
         requires=["forall(0, n_edge, lambda e: 0 <= edge_faces[e, 0] and edge_faces[e, 0] < n_face and "
                   "(edge_faces[e, 1] == FILL or (0 <= edge_faces[e, 1] and edge_faces[e, 1] < n_face)))"],
         returns="arr(real, n_edge)",
         ensures=["shape(result) == (n_edge,)",
                  # boundary edges: zero
                  "forall(0, n_edge, lambda e: implies(edge_faces[e, 1] == FILL, result[e] == 0))",
                  "forall(0, n_edge, lambda e: implies(edge_faces[e, 1] != FILL, eqr(result[e], "
                  + _GC.format(lat="node_lat", lon="node_lon", a="edge_faces[e, 0]", b="edge_faces[e, 1]") + ")))"],
         raises=[("Exception", "False", "only_if")])
